package pc24

import (
	"bytes"
	"context"
	"encoding/csv"
	"fmt"
	"math"
	"os"
	"path/filepath"
	"strconv"
	"strings"
	"sync/atomic"
	"testing"
	"time"

	"github.com/cube2222/octosql/config"
	"github.com/cube2222/octosql/octosql"
	"github.com/cube2222/octosql/physical"
	"github.com/valyala/fastjson/fastfloat"
	"pgregory.net/rapid"

	"verifharness/eng"
	"verifharness/ev"
	"verifharness/model"
)

// C24 — file datasources produce values that match their inferred schema.

const preview = 100 // rows the CSV and JSON datasources look at to infer the schema

// ---- running ------------------------------------------------------------------------------------------------------------

var fileSeq int64

func fileCtx() context.Context {
	return config.ContextWithConfig(context.Background(), &config.Config{Files: config.FilesConfig{
		JSON: config.JSONConfig{MaxLineSizeBytes: 1024 * 1024}, BufferSizeBytes: 4096}})
}

type opened struct {
	path   string
	plan   *eng.Plan
	Fields []physical.SchemaField
}

// open writes the file and compiles SELECT * over it (this is where the datasource infers and reports its schema).
func open(ext string, content []byte, opts string) (*opened, *eng.CompileError) {
	path := filepath.Join(ev.ScratchDir(), fmt.Sprintf("c24_%d_%d.%s", os.Getpid(), atomic.AddInt64(&fileSeq, 1), ext))
	if err := os.WriteFile(path, content, 0o644); err != nil {
		panic(err)
	}
	plan, cerr := eng.Compile(fileCtx(), "SELECT * FROM `"+path+opts+"` t", eng.Env(nil), eng.Options{Optimize: true, Raw: true})
	if cerr != nil {
		os.Remove(path)
		return nil, cerr
	}
	o := &opened{path: path, plan: plan}
	for _, f := range plan.OutFields {
		f.Name = strings.TrimPrefix(f.Name, "t.")
		o.Fields = append(o.Fields, f)
	}
	return o, nil
}

func (o *opened) close() { os.Remove(o.path) }

func (o *opened) run() ([][]octosql.Value, error) {
	outs, err := o.plan.Run(fileCtx())
	return eng.Rows(outs), err
}

func schemaString(fs []physical.SchemaField) string {
	parts := make([]string, len(fs))
	for i, f := range fs {
		parts[i] = f.Name + ": " + f.Type.String()
	}
	return "{" + strings.Join(parts, "; ") + "}"
}

func rowString(vs []octosql.Value) string {
	parts := make([]string, len(vs))
	for i, v := range vs {
		parts[i] = v.String()
	}
	return "(" + strings.Join(parts, ", ") + ")"
}

func clip(s string, n int) string {
	if len(s) > n {
		return s[:n] + fmt.Sprintf("…(%d bytes)", len(s))
	}
	return s
}

// ---- CSV ----------------------------------------------------------------------------------------------------------------

// CSVCase: data rows 0..NPre-1 cycle through Pre, the following NPost rows cycle through Post.
type CSVCase struct {
	Ext      string     `json:"ext"`
	Header   []string   `json:"header"`
	NoHeader bool       `json:"no_header"`
	Pre      [][]string `json:"pre"`
	Post     [][]string `json:"post"`
	NPre     int        `json:"n_pre"`
	NPost    int        `json:"n_post"`
}

func (c CSVCase) row(i int) []string {
	if i < c.NPre {
		return c.Pre[i%len(c.Pre)]
	}
	return c.Post[(i-c.NPre)%len(c.Post)]
}

func (c CSVCase) rows() int { return c.NPre + c.NPost }

func (c CSVCase) sep() rune {
	if c.Ext == "tsv" {
		return '\t'
	}
	return ','
}

func (c CSVCase) Content() []byte {
	var b bytes.Buffer
	w := csv.NewWriter(&b)
	w.Comma = c.sep()
	if !c.NoHeader {
		w.Write(c.Header)
	}
	for i := 0; i < c.rows(); i++ {
		w.Write(c.row(i))
	}
	w.Flush()
	return b.Bytes()
}

var csvCells = map[string][]string{
	"int":   {"0", "1", "-5", "42", "+1", "007", "-0", "+007", "00", "9223372036854775807", "-9223372036854775808", "1234567890123456789", "+0", "-12"},
	"float": {"1.5", "1e3", ".5", "5.", "0x1p-2", "inf", "-inf", "+Inf", "nan", "NaN", "1_000", "3e-1", "1.1e1", "8.41e21", "1e400", "1e-400", "-0.0", "+1.5", "Infinity", "-nan", "+nan", "-+inf", "1E5", "2.5e-3", "0.30000000000000004", "123456789.123456789", "9223372036854775808", "0.1e-1", "-.5e1", "1_0.5", "0X1P+2", "1e+2"},
	"bool":  {"t", "TRUE", "F", "true", "false", "T", "f", "True", "False", "FALSE"},
	"time":  {"2020-01-02T03:04:05Z", "2020-01-02T03:04:05.123456789+01:00", "1999-12-31T23:59:59.5-07:00"},
	"str":   {"abc", "x y", "null", "NULL", "-", "1-2", "12abc", "e5", "0x", "0x10", "tRuE", "yes", "é漢", "a,b", "q\"q", "two\nlines", "--1", "1e", "2020-01-02", "+", "."},
	"empty": {""},
}
var csvKinds = []string{"int", "float", "bool", "time", "str", "empty"}
var csvHeaderNames = []string{"a", "b", "c", "d", "x y", "é"}

// drawMix: 1-2 kinds (plus sometimes empty) a column's cells are drawn from.
func drawMix(t *rapid.T, label string) []string {
	mix := []string{rapid.SampledFrom(csvKinds[:5]).Draw(t, label+"k1")}
	if rapid.IntRange(0, 2).Draw(t, label+"two") == 0 {
		mix = append(mix, rapid.SampledFrom(csvKinds[:5]).Draw(t, label+"k2"))
	}
	if rapid.IntRange(0, 3).Draw(t, label+"nullable") == 0 {
		mix = append(mix, "empty")
	}
	return mix
}

func genCSVCase(t *rapid.T) CSVCase {
	c := CSVCase{Ext: rapid.SampledFrom([]string{"csv", "csv", "csv", "tsv"}).Draw(t, "ext")}
	nc := rapid.IntRange(1, 3).Draw(t, "ncols")
	c.Header = append([]string{}, rapid.Permutation(csvHeaderNames).Draw(t, "header")[:nc]...)
	c.NoHeader = rapid.IntRange(0, 5).Draw(t, "noheader") == 0
	changing := rapid.Bool().Draw(t, "changing")
	pre := make([][]string, nc)
	post := make([][]string, nc)
	for j := 0; j < nc; j++ {
		pre[j] = drawMix(t, "pre")
		post[j] = pre[j]
		if changing && rapid.IntRange(0, 3).Draw(t, "changecol") > 0 {
			post[j] = drawMix(t, "post")
		}
	}
	rows := func(n int, mix [][]string, label string) [][]string {
		out := make([][]string, n)
		for i := range out {
			out[i] = make([]string, nc)
			for j := range out[i] {
				k := rapid.SampledFrom(mix[j]).Draw(t, label+"kind")
				cell := rapid.SampledFrom(csvCells[k]).Draw(t, label+"cell")
				if cell == "" && nc == 1 {
					cell = rapid.SampledFrom(csvCells[mix[j][0]]).Draw(t, label+"cell2") // an empty line is no row
				}
				out[i][j] = cell
			}
		}
		return out
	}
	c.Pre = rows(rapid.IntRange(1, 6).Draw(t, "npretempl"), pre, "pre")
	c.Post = rows(rapid.IntRange(1, 4).Draw(t, "nposttempl"), post, "post")
	if changing {
		c.NPre = rapid.SampledFrom([]int{preview, preview, preview + 1, preview + 20, preview - 1}).Draw(t, "npre")
		c.NPost = rapid.SampledFrom([]int{1, len(c.Post), 30, 100}).Draw(t, "npost")
	} else {
		c.NPre = rapid.SampledFrom([]int{len(c.Pre), len(c.Pre), 1, 50, preview, preview + 30}).Draw(t, "npre")
		c.NPost = rapid.SampledFrom([]int{0, 0, len(c.Post), 60}).Draw(t, "npost")
	}
	return c
}

// csvKindOf: what the cell is, read the way the schema inference reads it (strconv, in its order).
func csvKindOf(cell string) octosql.TypeID {
	if cell == "" {
		return octosql.TypeIDNull
	}
	if _, err := strconv.ParseInt(cell, 10, 64); err == nil {
		return octosql.TypeIDInt
	}
	if _, err := strconv.ParseFloat(cell, 64); err == nil {
		return octosql.TypeIDFloat
	}
	if _, err := strconv.ParseBool(cell); err == nil {
		return octosql.TypeIDBoolean
	}
	if _, err := time.Parse(time.RFC3339Nano, cell); err == nil {
		return octosql.TypeIDTime
	}
	return octosql.TypeIDString
}

// csvUnrepresentable: the column type has no value for the cell: an empty cell where NULL is not admitted, or a text whose
// kind (as the inference reads it) is not admitted and that cannot be kept as a String either.
func csvUnrepresentable(t octosql.Type, cell string) bool {
	if cell == "" {
		return !model.Admits(t, octosql.TypeIDNull)
	}
	k := csvKindOf(cell)
	return !model.Admits(t, k) && !(k == octosql.TypeIDInt && model.Admits(t, octosql.TypeIDFloat)) && !model.Admits(t, octosql.TypeIDString)
}

// parsersDisagree: strconv (inference) and fastfloat (execution) read the cell differently as an integer or as a float.
func parsersDisagree(cell string) bool {
	i1, e1 := strconv.ParseInt(cell, 10, 64)
	i2, e2 := fastfloat.ParseInt64(cell)
	if (e1 == nil) != (e2 == nil) || (e1 == nil && i1 != i2) {
		return true
	}
	f1, e3 := strconv.ParseFloat(cell, 64)
	f2, e4 := fastfloat.Parse(cell)
	if (e3 == nil) != (e4 == nil) {
		return !(e3 != nil && math.IsInf(f1, 0) && e4 == nil && f1 == f2) // overflow: strconv reports ±Inf with a range error
	}
	return e3 == nil && math.Float64bits(f1) != math.Float64bits(f2) && !(f1 != f1 && f2 != f2)
}

// csvReplica mirrors the cell conversion of datasources/csv/execution.go with the given number parsers (classifier use only).
func csvReplica(t octosql.Type, cell string, parseInt func(string) (int64, error), parseFloat func(string) (float64, error)) octosql.Value {
	if cell == "" {
		return octosql.NewNull()
	}
	if octosql.Int.Is(t) == octosql.TypeRelationIs {
		if v, err := parseInt(cell); err == nil {
			return octosql.NewInt(v)
		}
	}
	if octosql.Float.Is(t) == octosql.TypeRelationIs {
		if v, err := parseFloat(cell); err == nil {
			return octosql.NewFloat(v)
		}
	}
	if octosql.Boolean.Is(t) == octosql.TypeRelationIs {
		if v, err := strconv.ParseBool(cell); err == nil {
			return octosql.NewBoolean(v)
		}
	}
	if octosql.Time.Is(t) == octosql.TypeRelationIs {
		if v, err := time.Parse(time.RFC3339Nano, cell); err == nil {
			return octosql.NewTime(v)
		}
	}
	return octosql.NewString(cell)
}

// classifyCSV attributes a deviating cell to a recorded finding, or returns "".
//
//	csv-fastfloat-vs-strconv: the value is exactly what the execution code yields with its fastfloat parsers, and the same
//	  code with the strconv parsers the inference uses yields an acceptable value (the two parsers disagree on the cell).
//	csv-null-nonnullable: an empty cell (beyond the preview) came out as NULL in a column whose type does not admit NULL.
//	csv-string-fallthrough: a cell that none of the admitted kinds parses came out as a String holding the cell text in a
//	  column whose type does not admit String.
func (r *c24) classifyCSV(t octosql.Type, cell string, got octosql.Value) string {
	ff := csvReplica(t, cell, fastfloat.ParseInt64, fastfloat.Parse)
	if !model.SameValue(ff, got) {
		return ""
	}
	sc := csvReplica(t, cell, func(s string) (int64, error) { return strconv.ParseInt(s, 10, 64) }, func(s string) (float64, error) { return strconv.ParseFloat(s, 64) })
	// with the inference's parsers the cell would be read acceptably, or would be text that the column type cannot hold
	// (an error once the fall-through to String is repaired): either way the deviation comes from the parser disagreement
	scUnrepresentable := sc.TypeID == octosql.TypeIDString && sc.Str == cell && !model.Admits(t, octosql.TypeIDString)
	if !model.SameValue(ff, sc) && (model.CSVCheck(t, cell, sc) == "" || scUnrepresentable) {
		if r.rec.Known("csv-fastfloat-vs-strconv") {
			return "csv-fastfloat-vs-strconv"
		}
		return ""
	}
	if cell == "" && got.TypeID == octosql.TypeIDNull && !model.Admits(t, octosql.TypeIDNull) {
		if r.rec.Known("csv-null-nonnullable") {
			return "csv-null-nonnullable"
		}
		return ""
	}
	if got.TypeID == octosql.TypeIDString && got.Str == cell && !model.Admits(t, octosql.TypeIDString) {
		if r.rec.Known("csv-string-fallthrough") {
			return "csv-string-fallthrough"
		}
	}
	return ""
}

func (r *c24) csvProp(c CSVCase) ev.Outcome {
	if len(c.Pre) == 0 || len(c.Post) == 0 || len(c.Header) == 0 || c.NPre < 0 || c.NPost < 0 || c.rows() == 0 || c.rows() > 1000 {
		return ev.Outcome{Discard: true}
	}
	content := c.Content()
	rd := csv.NewReader(bytes.NewReader(content))
	rd.Comma = c.sep()
	back, err := rd.ReadAll()
	hdr := 1
	if c.NoHeader {
		hdr = 0
	}
	if err != nil || len(back) != c.rows()+hdr {
		return ev.Outcome{Discard: true}
	}
	for i := 0; i < c.rows(); i++ {
		for j, cell := range c.row(i) {
			if back[i+hdr][j] != cell {
				return ev.Outcome{Discard: true}
			}
		}
	}
	opts := ""
	if c.NoHeader {
		opts = "?header=false"
	}
	o, cerr := open(c.Ext, content, opts)
	if cerr != nil {
		return ev.Fail("%s file %q: compile error %v", c.Ext, clip(string(content), 300), cerr)
	}
	defer o.close()
	if len(o.Fields) != len(c.Header) {
		return ev.Fail("%s file %q: %d columns, schema %s", c.Ext, clip(string(content), 300), len(c.Header), schemaString(o.Fields))
	}
	// classification of the input
	var classes []string
	nonTrivial := false
	newKind, disagree := false, false
	for i := 0; i < c.rows(); i++ {
		for j, cell := range c.row(i) {
			if i >= preview {
				k := csvKindOf(cell)
				if !model.Admits(o.Fields[j].Type, k) && !(k == octosql.TypeIDInt && model.Admits(o.Fields[j].Type, octosql.TypeIDFloat)) {
					newKind = true
				}
			}
			if parsersDisagree(cell) {
				disagree = true
			}
		}
	}
	if newKind {
		classes = append(classes, "csv:post_preview_cell_of_new_kind")
		nonTrivial = true
	}
	if disagree {
		classes = append(classes, "csv:strconv_fastfloat_disagree")
		nonTrivial = true
	}
	if c.rows() > preview {
		classes = append(classes, "csv:rows>100")
	} else {
		classes = append(classes, "csv:rows<=100")
	}
	rows, rerr := o.run()
	if rerr != nil {
		// an error is the demanded outcome for a row the schema cannot represent; on a file where every cell is representable it is wrong
		for i := 0; i < c.rows(); i++ {
			for j, cell := range c.row(i) {
				if csvUnrepresentable(o.Fields[j].Type, cell) {
					return ev.Outcome{NonTrivial: nonTrivial, Classes: append(classes, "csv:unrepresentable_row_reported_as_error")}
				}
			}
		}
		return ev.Fail("%s file %q, schema %s: run error %v although every cell is representable", c.Ext, clip(string(content), 300), schemaString(o.Fields), rerr)
	}
	if len(rows) != c.rows() {
		return ev.Fail("%s file %q with %d rows returned %d records", c.Ext, clip(string(content), 300), c.rows(), len(rows))
	}
	excluded := ""
	for i, row := range rows {
		cells := c.row(i)
		if len(row) != len(cells) {
			return ev.Fail("record %d has %d values for %d cells", i, len(row), len(cells))
		}
		for j, cell := range cells {
			t := o.Fields[j].Type
			msg := model.CSVCheck(t, cell, row[j])
			if msg == "" && !model.Conforms(row[j], t) {
				msg = fmt.Sprintf("value %s does not match the column type", row[j].String())
			}
			if msg == "" {
				continue
			}
			id := r.classifyCSV(t, cell, row[j])
			if id == "" {
				return ev.Fail("%s file (header=%v, %d rows), data row %d %q, column %q of reported type %s: %s (no error was reported); record %s; first rows %q", c.Ext, !c.NoHeader, c.rows(), i, cells, o.Fields[j].Name, t.String(), msg, rowString(row), clip(string(content), 200))
			}
			excluded = id
			classes = append(classes, "csv:dev:"+id)
		}
	}
	return ev.Outcome{NonTrivial: nonTrivial, Classes: dedup(classes), Excluded: excluded}
}

func dedup(l []string) []string {
	seen := map[string]bool{}
	var out []string
	for _, s := range l {
		if !seen[s] {
			seen[s] = true
			out = append(out, s)
		}
	}
	return out
}

// ---- JSON ---------------------------------------------------------------------------------------------------------------

// JSONCase: line i is "{" Pre[i % len(Pre)] "}" for i < NPre, then NPost lines cycling through Post.
type JSONCase struct {
	Pre   []string `json:"pre"` // member lists
	Post  []string `json:"post"`
	NPre  int      `json:"n_pre"`
	NPost int      `json:"n_post"`
}

func (c JSONCase) rows() int { return c.NPre + c.NPost }

func (c JSONCase) line(i int) string {
	if i < c.NPre {
		return "{" + c.Pre[i%len(c.Pre)] + "}"
	}
	return "{" + c.Post[(i-c.NPre)%len(c.Post)] + "}"
}

func (c JSONCase) Content() []byte {
	var b bytes.Buffer
	for i := 0; i < c.rows(); i++ {
		b.WriteString(c.line(i))
		b.WriteByte('\n')
	}
	return b.Bytes()
}

var jsonCells = map[string][]string{
	"num":     {"0", "1", "-1", "2.5", "1e3", "3e-1", "0.1e-1", "8.41e21", "1.1e1", "-0", "123456789012345678", "12345678901234567890", "5e-324", "1E5", "0.30000000000000004"},
	"str":     {`""`, `"x"`, `"12"`, `"true"`, `"null"`, `"é\n"`, `"a b"`, `"1h"`},
	"time":    {`"2020-01-02T03:04:05Z"`, `"2020-01-02T03:04:05.123456789+01:00"`},
	"bool":    {"true", "false"},
	"null":    {"null"},
	"numarr":  {"[1]", "[1,2.5]", "[]", "[3e-1]", "[1,null]"},
	"strarr":  {`["a"]`, `["a","b"]`, "[]", `["2020-01-02T03:04:05Z"]`},
	"mixarr":  {`[1,"a"]`, `[true,null]`, `[[1],[2]]`, `[{"x":1}]`, `[[]]`, `["a",[1]]`},
	"obj":     {`{"x":1}`, `{"x":1,"y":"s"}`, `{"y":"s"}`, `{}`, `{"x":null}`, `{"x":"s"}`, `{"x":1,"z":[1]}`, `{"x":{"q":true}}`},
	"missing": {""},
}
var jsonKinds = []string{"num", "str", "time", "bool", "null", "numarr", "strarr", "mixarr", "obj", "missing"}
var jsonKeys = []string{"a", "b", "c", "d"}

func drawJSONMix(t *rapid.T, label string) []string {
	mix := []string{rapid.SampledFrom(jsonKinds[:9]).Draw(t, label+"k1")}
	if rapid.IntRange(0, 2).Draw(t, label+"two") == 0 {
		mix = append(mix, rapid.SampledFrom(jsonKinds[:9]).Draw(t, label+"k2"))
	}
	switch rapid.IntRange(0, 5).Draw(t, label+"nullable") {
	case 0:
		mix = append(mix, "null")
	case 1:
		mix = append(mix, "missing")
	}
	return mix
}

func genJSONCase(t *rapid.T) JSONCase {
	nk := rapid.IntRange(1, 3).Draw(t, "nkeys")
	keys := jsonKeys[:nk]
	changing := rapid.Bool().Draw(t, "changing")
	pre := make([][]string, nk)
	post := make([][]string, nk)
	for j := range keys {
		pre[j] = drawJSONMix(t, "pre")
		post[j] = pre[j]
		if changing && rapid.IntRange(0, 3).Draw(t, "changecol") > 0 {
			post[j] = drawJSONMix(t, "post")
		}
	}
	rows := func(n int, mix [][]string, label string) []string {
		out := make([]string, n)
		for i := range out {
			var parts []string
			for j, k := range keys {
				kind := rapid.SampledFrom(mix[j]).Draw(t, label+"kind")
				if kind == "missing" {
					continue
				}
				parts = append(parts, `"`+k+`":`+rapid.SampledFrom(jsonCells[kind]).Draw(t, label+"cell"))
			}
			out[i] = strings.Join(parts, ",")
		}
		return out
	}
	c := JSONCase{}
	c.Pre = rows(rapid.IntRange(1, 6).Draw(t, "npretempl"), pre, "pre")
	c.Post = rows(rapid.IntRange(1, 4).Draw(t, "nposttempl"), post, "post")
	if changing {
		c.NPre = rapid.SampledFrom([]int{preview, preview, preview + 1, preview + 28, preview - 1}).Draw(t, "npre")
		c.NPost = rapid.SampledFrom([]int{1, len(c.Post), 30, 100}).Draw(t, "npost")
	} else {
		c.NPre = rapid.SampledFrom([]int{len(c.Pre), len(c.Pre), 1, 50, preview, preview + 30}).Draw(t, "npre")
		c.NPost = rapid.SampledFrom([]int{0, 0, len(c.Post), 60}).Draw(t, "npost")
	}
	return c
}

// classifyJSON attributes a deviating cell to a recorded finding, or returns "".
//
//	json-unrepresentable-becomes-null: the cell cannot be represented in the reported column type, no error was reported,
//	  and the value is exactly what getOctoSQLValue returns next to ok=false (which the worker discards): NULL, or an
//	  array/object with NULL in the unrepresentable positions.
//	json-null-drops-container / fastfloat-double-rounding: as in C23 (the cell is representable).
func (r *c24) classifyJSON(t octosql.Type, v interface{}, present bool, got octosql.Value, representable bool) string {
	try := func(o model.ReplicaOpts) bool {
		rep, _ := model.JSONReplica(t, v, present, o)
		return model.SameValue(rep, got)
	}
	if !representable {
		if r.rec.Known("json-unrepresentable-becomes-null") && (try(model.ReplicaOpts{}) || try(model.ReplicaOpts{FastFloat: true})) {
			return "json-unrepresentable-becomes-null"
		}
		return ""
	}
	fixed, ok := model.JSONReplica(t, v, present, model.ReplicaOpts{NullFix: true})
	if !ok || model.JSONCheck(t, v, fixed, "") != "" {
		return ""
	}
	if r.rec.Known("fastfloat-double-rounding") && try(model.ReplicaOpts{NullFix: true, FastFloat: true}) {
		return "fastfloat-double-rounding"
	}
	if r.rec.Known("json-null-drops-container") && (try(model.ReplicaOpts{}) || (r.rec.Known("fastfloat-double-rounding") && try(model.ReplicaOpts{FastFloat: true}))) {
		return "json-null-drops-container"
	}
	return ""
}

func (r *c24) jsonProp(c JSONCase) ev.Outcome {
	if len(c.Pre) == 0 || len(c.Post) == 0 || c.NPre < 0 || c.NPost < 0 || c.rows() == 0 || c.rows() > 1000 {
		return ev.Outcome{Discard: true}
	}
	content := c.Content()
	decoded := make([]map[string]interface{}, c.rows())
	cache := map[string]map[string]interface{}{}
	for i := range decoded {
		line := c.line(i)
		m, ok := cache[line]
		if !ok {
			var err error
			m, err = model.DecodeJSONLine([]byte(line))
			if err != nil {
				return ev.Outcome{Discard: true}
			}
			cache[line] = m
		}
		decoded[i] = m
	}
	o, cerr := open("json", content, "")
	if cerr != nil {
		empty := true
		for i := 0; i < c.rows() && i < preview; i++ {
			empty = empty && len(decoded[i]) == 0
		}
		if empty {
			return ev.Outcome{Classes: []string{"json:no_columns_rejected"}} // only empty objects in the preview: no columns
		}
		return ev.Fail("JSON file %q: compile error %v", clip(string(content), 300), cerr)
	}
	defer o.close()
	var classes []string
	firstBad := -1
	for i := 0; i < c.rows(); i++ {
		for _, f := range o.Fields {
			v := decoded[i][f.Name]
			if model.JSONHitsEmptyListType(f.Type, v) {
				// datasources/json dereferences the nil element type of `[]` in a worker goroutine: the process would die.
				// Reported separately; such files are kept out of the in-process run.
				return ev.Outcome{Discard: true}
			}
			if firstBad < 0 && !model.JSONRepresentable(f.Type, v, false) {
				firstBad = i
			}
		}
	}
	if c.rows() > preview {
		classes = append(classes, "json:rows>100")
	} else {
		classes = append(classes, "json:rows<=100")
	}
	nonTrivial := false
	if firstBad >= 0 {
		if firstBad < preview {
			return ev.Fail("JSON file %q: line %d %q, which is part of the inference preview, cannot be represented in the reported schema %s", clip(string(content), 300), firstBad, c.line(firstBad), schemaString(o.Fields))
		}
		classes = append(classes, "json:post_preview_cell_of_new_kind")
		nonTrivial = true
	}
	rows, rerr := o.run()
	if rerr != nil {
		if firstBad >= 0 {
			return ev.Outcome{NonTrivial: nonTrivial, Classes: append(classes, "json:unrepresentable_row_reported_as_error")}
		}
		return ev.Fail("JSON file %q, schema %s: run error %v although every line is representable", clip(string(content), 300), schemaString(o.Fields), rerr)
	}
	if len(rows) != c.rows() {
		return ev.Fail("JSON file %q with %d lines returned %d records", clip(string(content), 300), c.rows(), len(rows))
	}
	excluded := ""
	for i, row := range rows {
		if len(row) != len(o.Fields) {
			return ev.Fail("record %d has %d values, schema %s", i, len(row), schemaString(o.Fields))
		}
		for j, f := range o.Fields {
			v, present := decoded[i][f.Name]
			representable := model.JSONRepresentable(f.Type, v, false)
			msg := ""
			switch {
			case !representable:
				msg = fmt.Sprintf("the cell cannot be represented in the column type, yet no error was reported and it came out as %s", row[j].String())
			case !model.Conforms(row[j], f.Type):
				msg = fmt.Sprintf("value %s does not match the column type", row[j].String())
			default:
				msg = model.JSONCheck(f.Type, v, row[j], f.Name)
			}
			if msg == "" {
				continue
			}
			id := r.classifyJSON(f.Type, v, present, row[j], representable)
			if id == "" {
				return ev.Fail("JSON file (%d lines), line %d %q, column %q of reported type %s: %s; record %s; first lines %q", c.rows(), i, c.line(i), f.Name, f.Type.String(), msg, rowString(row), clip(string(content), 200))
			}
			excluded = id
			classes = append(classes, "json:dev:"+id)
		}
	}
	return ev.Outcome{NonTrivial: nonTrivial, Classes: dedup(classes), Excluded: excluded}
}

// ---- the property ---------------------------------------------------------------------------------------------------------

type c24 struct{ rec *ev.Rec }

func TestC24(t *testing.T) {
	rec := ev.New("C24", "exploration",
		"csv_schema: CSV/TSV files of 1-3 columns and up to 200 rows (header=false in 1/6); every column draws its cells from a mix of 1-2 kinds (+ empty) out of "+
			"int-like (+1 007 -0 9223372036854775807 ...), float-like (1e3 .5 5. 0x1p-2 inf nan 1_000 3e-1 8.41e21 1e400 -nan -+inf 9223372036854775808 ...), bool-like (t TRUE F ...), RFC3339, other strings (0x10 tRuE 12abc ...); "+
			"in half of the files the mix of most columns changes at row 99/100/101/120, i.e. beyond the 100-row inference preview. "+
			"json_schema: JSON-lines files of 1-3 keys, cells from number/string/RFC3339 string/bool/null/number array/string array/mixed and nested arrays/objects/missing key, same change of mix after the preview. "+
			"oracle: the schema the typechecked plan reports (what --describe prints) vs every produced value: model.Conforms(value, column type); a CSV cell must be NULL iff empty, a non-String value must equal strconv's reading of the text, a String must be the text (model.CSVCheck); "+
			"a JSON cell must equal the encoding/json decode under the column type (model.JSONCheck); a line holding a cell the column type cannot represent must make the run fail with an error. "+
			"non-trivial: more than 100 rows with a post-preview cell of a kind the inferred type does not admit, or a cell on which strconv and fastfloat disagree",
		"object keys that the inferred object type does not list are ignored (reading under an inferred schema is a projection); only listed fields are compared",
		"which admitted kind a CSV cell takes when several fit is left open; a String is accepted wherever the column type admits String",
		"strconv's ±Inf with a range error (1e400) counts as the float the text denotes",
		"files in which a non-empty array meets a list type inferred from empty arrays only (`[]`, no element type) are discarded before running: the JSON worker goroutine panics on them (nil dereference), which would kill the test process; reported separately")
	r := &c24{rec: rec}
	ev.Check(t, rec, "csv_schema", ev.N(10000, 200000), genCSVCase, r.csvProp)
	ev.Check(t, rec, "json_schema", ev.N(10000, 200000), genJSONCase, r.jsonProp)
}
