package pc21

import (
	"fmt"
	"strings"

	"github.com/cube2222/octosql/octosql"
	"pgregory.net/rapid"

	"verifharness/eng"
	"verifharness/ev"
	"verifharness/gen"
	"verifharness/mon"
)

// tumble over a wide source of which the query uses only some columns: the optimiser prunes the unused source columns, and
// tumble (time_field omitted) must still window by the source's declared time field. The source has other TIME columns
// around the time field whose values lie in other windows, so windowing by a neighbouring column shows.

type c21Pruned struct {
	Base   c21Tumble `json:"base"`
	Before int       `json:"decoys_before"` // time-typed columns in front of the time field
	After  int       `json:"decoys_after"`
	Keep   []string  `json:"keep"` // source columns the query selects besides ts, window_start, window_end
}

func (c c21Pruned) cols() []string {
	cols := []string{"id"}
	for i := 0; i < c.Before; i++ {
		cols = append(cols, fmt.Sprintf("b%d", i))
	}
	cols = append(cols, "ts")
	for i := 0; i < c.After; i++ {
		cols = append(cols, fmt.Sprintf("a%d", i))
	}
	return append(cols, "x")
}

func (c c21Pruned) sql() string {
	items := []string{"w.ts AS ts", "w.window_start AS window_start", "w.window_end AS window_end"}
	for _, k := range c.Keep {
		items = append(items, "w."+k+" AS "+k)
	}
	s := fmt.Sprintf("SELECT %s FROM tumble(source=>TABLE(mem.t), window_length=>INTERVAL %d NANOSECONDS", strings.Join(items, ", "), c.Base.Len)
	if !c.Base.NoOff {
		s += fmt.Sprintf(", offset=>INTERVAL %d NANOSECONDS", c.Base.Off)
	}
	return s + ") w"
}

func c21PrunedProp(c c21Pruned) ev.Outcome {
	cols := c.cols()
	types := make([]gen.JT, len(cols))
	tsIdx := 1 + c.Before
	for i, n := range cols {
		switch {
		case n == "id":
			types[i] = gen.JT{K: "int"}
		case n == "x":
			types[i] = gen.JT{K: "union", Parts: []gen.JT{{K: "null"}, {K: "str"}, {K: "int"}}}
		default:
			types[i] = gen.JT{K: "time"}
		}
	}
	tb := &eng.Table{Cols: cols, Types: types, TimeField: tsIdx}
	nrec := 0
	for i, m := range c.Base.Msgs {
		if m.WM {
			tb.Msgs = append(tb.Msgs, mon.Msg{Kind: "wm", T: m.T})
			continue
		}
		nrec++
		vals := make([]gen.JV, len(cols))
		for j, n := range cols {
			switch {
			case n == "id":
				vals[j] = gen.Int(int64(i))
			case n == "x":
				vals[j] = m.X
			case n == "ts":
				vals[j] = gen.JV{K: "time", I: m.T, Z: m.Zone}
			default:
				// another window: at least two window lengths away from ts, a different distance per column
				vals[j] = gen.JV{K: "time", I: m.T + int64(j-tsIdx)*3*c.Base.Len}
			}
		}
		tb.Msgs = append(tb.Msgs, mon.Msg{Kind: "rec", Vals: vals, Retr: m.Retr, T: m.ET})
	}
	env := eng.Env(map[string]*eng.Table{"t": tb})
	ctx := eng.Context()
	unused := len(cols) - 1 - len(c.Keep)
	o := ev.Outcome{NonTrivial: nrec > 0 && unused >= 1, Classes: []string{fmt.Sprintf("pruned_%d_unused_source_columns", unused), fmt.Sprintf("pruned_%d_time_columns_before_the_time_field", c.Before)}}
	for _, optimize := range []bool{true, false} {
		plan, cerr := eng.Compile(ctx, c.sql(), env, eng.Options{Optimize: optimize, Raw: true})
		if cerr != nil {
			return ev.Fail("%s over columns %v (time field ts): does not compile (optimize=%v): %v", c.sql(), cols, optimize, cerr)
		}
		outs, err, panicked := plan.RunGuard(ctx)
		if err != nil {
			return ev.Fail("%s over columns %v (time field ts) failed (optimize=%v, panic=%v): %v", c.sql(), cols, optimize, panicked, err)
		}
		k := 0
		for i, m := range c.Base.Msgs {
			if m.WM {
				k++
				continue
			}
			if k >= len(outs) || outs[k].IsWM {
				return ev.Fail("%s over columns %v (optimize=%v): output #%d is not the record #%d: %s", c.sql(), cols, optimize, k, i, mon.FormatOuts(outs))
			}
			v := outs[k].Rec.Values
			k++
			if len(v) < 3 || v[0].TypeID != octosql.TypeIDTime || v[1].TypeID != octosql.TypeIDTime || v[2].TypeID != octosql.TypeIDTime {
				return ev.Fail("%s over columns %v (optimize=%v): record #%d came out as %s", c.sql(), cols, optimize, i, outs[k-1])
			}
			ts, s, e := v[0].Time.UnixNano(), v[1].Time.UnixNano(), v[2].Time.UnixNano()
			if ts != m.T {
				return ev.Fail("%s over columns %v (optimize=%v): record #%d has ts=%d, the source said %d", c.sql(), cols, optimize, i, ts, m.T)
			}
			if !(s <= ts && ts < e) || e-s != c.Base.Len {
				return ev.Fail("%s over source columns %v with declared time field ts (optimize=%v): record ts=%d got window [%d, %d): want window_start <= ts < window_end and length %d", c.sql(), cols, optimize, ts, s, e, c.Base.Len)
			}
		}
	}
	return o
}

func c21PrunedGen(t *rapid.T) c21Pruned {
	base := c21TumbleGen(t)
	base.Implicit = true
	if base.Len > 1<<40 {
		base.Len = 1 << 40 // the decoy columns sit a few window lengths away: keep them inside int64 nanoseconds
	}
	for i := range base.Msgs {
		if !base.Msgs[i].WM {
			if base.Msgs[i].T > 1<<60 {
				base.Msgs[i].T = 1 << 60
			}
			if base.Msgs[i].T < -(1 << 60) {
				base.Msgs[i].T = -(1 << 60)
			}
		}
	}
	c := c21Pruned{Base: base, Before: rapid.IntRange(0, 3).Draw(t, "before"), After: rapid.IntRange(0, 2).Draw(t, "after")}
	for _, n := range c.cols() {
		if n != "ts" && rapid.IntRange(0, 3).Draw(t, "keep_"+n) == 0 {
			c.Keep = append(c.Keep, n)
		}
	}
	return c
}
