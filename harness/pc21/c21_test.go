package pc21

import (
	"context"
	"errors"
	"fmt"
	"math"
	"math/big"
	"strings"
	"testing"
	"time"

	"github.com/cube2222/octosql/execution"
	"github.com/cube2222/octosql/execution/nodes"
	"github.com/cube2222/octosql/octosql"
	"github.com/cube2222/octosql/physical"
	"github.com/cube2222/octosql/table_valued_functions"
	"pgregory.net/rapid"

	"verifharness/eng"
	"verifharness/ev"
	"verifharness/gen"
	"verifharness/mon"
)

// C21 — tumble, range and poll produce their documented streams.

// ---------------------------------------------------------------------------------------------- tumble

type c21Msg struct {
	WM   bool   `json:"wm,omitempty"`
	T    int64  `json:"t"`              // record: time field (unix ns); watermark: value
	Zone int    `json:"zone,omitempty"` // zone of the time value
	X    gen.JV `json:"x"`              // the other payload field
	Retr bool   `json:"retr,omitempty"`
	ET   int64  `json:"et,omitempty"` // event time attached by the source (0 = none)
}

type c21Tumble struct {
	Msgs     []c21Msg `json:"msgs"`
	Len      int64    `json:"len"` // window length ns, > 0
	Off      int64    `json:"off"` // offset ns, any sign
	NoOff    bool     `json:"no_off"`
	Implicit bool     `json:"implicit"` // time_field omitted: the source's declared time field is used
}

func (c c21Tumble) sql() string {
	s := fmt.Sprintf("SELECT * FROM tumble(source=>TABLE(mem.t), window_length=>INTERVAL %d NANOSECONDS", c.Len)
	if !c.Implicit {
		s += ", time_field=>DESCRIPTOR(ts)"
	}
	if !c.NoOff {
		s += fmt.Sprintf(", offset=>INTERVAL %d NANOSECONDS", c.Off)
	}
	return s + ") w"
}

func (c c21Tumble) String() string {
	parts := make([]string, len(c.Msgs))
	for i, m := range c.Msgs {
		if m.WM {
			parts[i] = fmt.Sprintf("wm(%d)", m.T)
		} else {
			parts[i] = fmt.Sprintf("t=%d", m.T)
		}
	}
	return fmt.Sprintf("%s over [%s]", c.sql(), strings.Join(parts, " "))
}

// ns between Go's zero time (0001-01-01) and the Unix epoch
var zeroToEpoch = new(big.Int).Mul(big.NewInt(62135596800), big.NewInt(1e9))

func modBig(x *big.Int, m int64) int64 {
	return new(big.Int).Mod(x, big.NewInt(m)).Int64() // Euclidean: always in [0, m)
}

func c21TumbleProp(c c21Tumble) ev.Outcome {
	xt := gen.JT{K: "union", Parts: []gen.JT{{K: "null"}, {K: "str"}, {K: "int"}}}
	tb := &eng.Table{Cols: []string{"id", "ts", "x"}, Types: []gen.JT{{K: "int"}, {K: "time"}, xt}, TimeField: -1}
	if c.Implicit {
		tb.TimeField = 1
	}
	off := c.Off
	if c.NoOff {
		off = 0
	}
	nrec, nwm := 0, 0
	for i, m := range c.Msgs {
		if m.WM {
			tb.Msgs = append(tb.Msgs, mon.Msg{Kind: "wm", T: m.T})
			nwm++
			continue
		}
		nrec++
		tb.Msgs = append(tb.Msgs, mon.Msg{Kind: "rec", Vals: []gen.JV{gen.Int(int64(i)), {K: "time", I: m.T, Z: m.Zone}, m.X}, Retr: m.Retr, T: m.ET})
	}
	env := eng.Env(map[string]*eng.Table{"t": tb})
	ctx := eng.Context()
	o := ev.Outcome{}
	windows := map[int64]bool{}
	originEpoch, originZero := true, true
	for _, optimize := range []bool{true, false} {
		plan, cerr := eng.Compile(ctx, c.sql(), env, eng.Options{Optimize: optimize, Raw: true})
		if cerr != nil {
			return ev.Fail("%s: does not compile: %v", c, cerr)
		}
		col := map[string]int{}
		for i, f := range plan.OutFields {
			name := f.Name
			if k := strings.LastIndex(name, "."); k >= 0 {
				name = name[k+1:]
			}
			col[name] = i
		}
		if len(plan.OutFields) != 5 || len(col) != 5 {
			return ev.Fail("%s: output fields %v, want id, ts, x, window_start, window_end", c, plan.OutFields)
		}
		for _, n := range []string{"id", "ts", "x", "window_start", "window_end"} {
			if _, ok := col[n]; !ok {
				return ev.Fail("%s: output fields %v lack %s", c, plan.OutFields, n)
			}
		}
		outs, err := plan.Run(ctx)
		if err != nil {
			return ev.Fail("%s: failed: %v", c, err)
		}
		if len(outs) != len(c.Msgs) {
			return ev.Fail("%s (optimize=%v): %d output messages for %d input messages: %s", c, optimize, len(outs), len(c.Msgs), mon.FormatOuts(outs))
		}
		for i, m := range c.Msgs {
			out := outs[i]
			if m.WM {
				if !out.IsWM || out.WM.UnixNano() != m.T {
					return ev.Fail("%s (optimize=%v): output #%d is %s, want the source watermark %d unchanged", c, optimize, i, out, m.T)
				}
				continue
			}
			if out.IsWM {
				return ev.Fail("%s (optimize=%v): output #%d is %s, want record #%d", c, optimize, i, out, i)
			}
			v := out.Rec.Values
			if len(v) != 5 {
				return ev.Fail("%s (optimize=%v): output #%d has %d fields: %s", c, optimize, i, len(v), out)
			}
			if v[col["id"]].TypeID != octosql.TypeIDInt || v[col["id"]].Int != int64(i) ||
				v[col["ts"]].TypeID != octosql.TypeIDTime || v[col["ts"]].Time.UnixNano() != m.T ||
				gen.FromOct(v[col["x"]]).String() != m.X.String() || out.Rec.Retraction != m.Retr {
				return ev.Fail("%s (optimize=%v): output #%d is %s: the source fields / retraction flag of record #%d (t=%d, x=%s, retr=%v) changed", c, optimize, i, out, i, m.T, m.X, m.Retr)
			}
			ws, we := v[col["window_start"]], v[col["window_end"]]
			if ws.TypeID != octosql.TypeIDTime || we.TypeID != octosql.TypeIDTime {
				return ev.Fail("%s (optimize=%v): output #%d: window bounds are not times: %s", c, optimize, i, out)
			}
			s, e := ws.Time.UnixNano(), we.Time.UnixNano()
			if !(s <= m.T && m.T < e) {
				return ev.Fail("%s (optimize=%v): record t=%d got window [%d, %d): want window_start <= t < window_end", c, optimize, m.T, s, e)
			}
			if e-s != c.Len {
				return ev.Fail("%s (optimize=%v): record t=%d got window [%d, %d) of length %d, want %d", c, optimize, m.T, s, e, e-s, c.Len)
			}
			// event time: the statement is silent; the source's or window_end (README: "becomes its new Event Time") are both accepted
			if et := mon.NsOf(out.Rec.EventTime); et != m.ET && !(out.Rec.EventTime.Equal(we.Time)) {
				return ev.Fail("%s (optimize=%v): record t=%d has event time %s, neither the source's (%d) nor window_end", c, optimize, m.T, out.Rec.EventTime, m.ET)
			}
			// window_start - offset is a multiple of the length, counted from the Unix epoch or from Go's zero time
			d := new(big.Int).Sub(big.NewInt(s), big.NewInt(off))
			if modBig(d, c.Len) != 0 {
				originEpoch = false
			}
			if modBig(new(big.Int).Add(d, zeroToEpoch), c.Len) != 0 {
				originZero = false
			}
			if !originEpoch && !originZero {
				return ev.Fail("%s (optimize=%v): record t=%d got window_start %d: window_start - offset (%d) is a multiple of the length %d neither from the Unix epoch nor from 0001-01-01 (consistently with the earlier records)", c, optimize, m.T, s, off, c.Len)
			}
			windows[s] = true
		}
	}
	o.NonTrivial = len(windows) >= 2
	cl := func(b bool, s string) {
		if b {
			o.Classes = append(o.Classes, s)
		}
	}
	cl(len(windows) >= 2, "tumble_two_or_more_windows")
	cl(nwm > 0, "tumble_with_watermarks")
	cl(c.Implicit, "tumble_implicit_time_field")
	cl(c.NoOff, "tumble_offset_omitted")
	cl(!c.NoOff && c.Off < 0, "tumble_negative_offset")
	cl(nrec > 0 && originEpoch && !originZero, "tumble_origin_epoch_only")
	cl(nrec > 0 && !originEpoch && originZero, "tumble_origin_year1_only")
	cl(nrec > 0 && originEpoch && originZero, "tumble_origins_coincide")
	for _, m := range c.Msgs {
		if !m.WM && m.T < 0 {
			cl(true, "tumble_pre_epoch_time")
			break
		}
	}
	return o
}

var c21Lens = []int64{1, 2, 7, 1000, 1e6, 1e9, 1e9, 10e9, 60e9, 3600e9, 86400e9, 7 * 86400e9, 1234567891}

func c21TumbleGen(t *rapid.T) c21Tumble {
	c := c21Tumble{Implicit: rapid.IntRange(0, 3).Draw(t, "implicit") == 0, NoOff: rapid.IntRange(0, 4).Draw(t, "nooff") == 0}
	if rapid.IntRange(0, 4).Draw(t, "lenkind") == 0 {
		c.Len = rapid.Int64Range(1, 1<<50).Draw(t, "len")
	} else {
		c.Len = rapid.SampledFrom(c21Lens).Draw(t, "len")
	}
	u := c.Len / 4
	if u == 0 {
		u = 1
	}
	if !c.NoOff {
		switch rapid.IntRange(0, 5).Draw(t, "offkind") {
		case 0:
			c.Off = 0
		case 1:
			c.Off = rapid.Int64Range(-9, 9).Draw(t, "off") * u
		case 2:
			c.Off = rapid.Int64Range(-3, 3).Draw(t, "off")
		case 3:
			c.Off = rapid.Int64Range(-(1 << 50), 1<<50).Draw(t, "off")
		case 4:
			c.Off = rapid.SampledFrom([]int64{1, -1}).Draw(t, "sign") * c.Len
		default:
			c.Off = rapid.Int64Range(0, c.Len).Draw(t, "off")
		}
	}
	var base int64
	switch rapid.IntRange(0, 6).Draw(t, "basekind") {
	case 0:
		base = 0
	case 1:
		base = c.Off
	case 2:
		base = -2208988800e9
	case 3:
		base = 1500000000e9 + 5e8
	case 4:
		base = rapid.Int64Range(-(1 << 60), 1<<60).Draw(t, "base")
	case 5:
		base = rapid.Int64Range(-6, 6).Draw(t, "base") * c.Len
	default:
		base = -rapid.Int64Range(0, 1<<40).Draw(t, "base")
	}
	n := rapid.IntRange(0, 8).Draw(t, "n")
	cur := base
	for i := 0; i < n; i++ {
		if rapid.IntRange(0, 5).Draw(t, "wm") == 0 {
			c.Msgs = append(c.Msgs, c21Msg{WM: true, T: cur + rapid.Int64Range(-8, 8).Draw(t, "wmoff")*u})
		}
		switch rapid.IntRange(0, 4).Draw(t, "stepkind") {
		case 0:
		case 1:
			cur += rapid.Int64Range(-9, 9).Draw(t, "step") * u
		case 2:
			cur += rapid.Int64Range(-2, 2).Draw(t, "step")
		case 3:
			cur = base + c.Off + rapid.Int64Range(-3, 3).Draw(t, "k")*c.Len + rapid.Int64Range(-1, 1).Draw(t, "eps") // window boundaries
		default:
			cur += rapid.Int64Range(-3*c.Len, 3*c.Len).Draw(t, "step")
		}
		if cur > 1<<61 || cur < -(1<<61) {
			cur = base
		}
		m := c21Msg{T: cur, Retr: rapid.IntRange(0, 5).Draw(t, "retr") == 0}
		switch rapid.IntRange(0, 3).Draw(t, "xkind") {
		case 0:
			m.X = gen.Null()
		case 1:
			m.X = gen.Scalar(t, "int", "x")
		default:
			m.X = gen.Scalar(t, "str", "x")
		}
		if rapid.IntRange(0, 5).Draw(t, "zoned") == 0 {
			m.Zone = rapid.SampledFrom([]int{3600, -7200, 19800}).Draw(t, "zone")
		}
		if rapid.IntRange(0, 2).Draw(t, "et") == 0 {
			m.ET = rapid.Int64Range(1, 1<<50).Draw(t, "etv")
		}
		c.Msgs = append(c.Msgs, m)
	}
	return c
}

// ---------------------------------------------------------------------------------------------- range

type c21Range struct {
	Start int64 `json:"start"`
	End   int64 `json:"end"`
	Minus bool  `json:"minus"` // negative bounds written -5 instead of (0 - 5)
}

func intLit(i int64, minus bool) string {
	switch {
	case i >= 0:
		return fmt.Sprint(i)
	case i == math.MinInt64:
		return "(0 - 9223372036854775807 - 1)"
	case minus:
		return fmt.Sprint(i)
	}
	return fmt.Sprintf("(0 - %d)", -i)
}

func c21RangeProp(c c21Range) ev.Outcome {
	sql := fmt.Sprintf("SELECT * FROM range(start=>%s, end=>%s) r", intLit(c.Start, c.Minus), intLit(c.End, c.Minus))
	env := eng.Env(nil)
	ctx := eng.Context()
	want := int64(0)
	if c.End > c.Start {
		want = c.End - c.Start
	}
	for _, optimize := range []bool{true, false} {
		plan, cerr := eng.Compile(ctx, sql, env, eng.Options{Optimize: optimize, Raw: true})
		if cerr != nil {
			return ev.Fail("%s: does not compile: %v", sql, cerr)
		}
		outs, err := plan.Run(ctx)
		if err != nil {
			return ev.Fail("%s: failed: %v", sql, err)
		}
		next := c.Start
		count := int64(0)
		for i, out := range outs {
			if out.IsWM {
				continue // the statement says nothing about watermarks of range
			}
			if out.Rec.Retraction || len(out.Rec.Values) != 1 || out.Rec.Values[0].TypeID != octosql.TypeIDInt {
				return ev.Fail("%s (optimize=%v): output #%d is %s, want one inserted Int", sql, optimize, i, out)
			}
			if count >= want || out.Rec.Values[0].Int != next {
				return ev.Fail("%s (optimize=%v): output #%d is %d, want exactly %d..%d ascending (%d rows)", sql, optimize, i, out.Rec.Values[0].Int, c.Start, c.End-1, want)
			}
			next++
			count++
		}
		if count != want {
			return ev.Fail("%s (optimize=%v): %d rows, want %d (%d..%d)", sql, optimize, count, want, c.Start, c.End-1)
		}
	}
	o := ev.Outcome{NonTrivial: want >= 2}
	switch {
	case want == 0 && c.End == c.Start:
		o.Classes = append(o.Classes, "range_empty_equal_bounds")
	case want == 0:
		o.Classes = append(o.Classes, "range_empty_end_below_start")
	case c.Start < 0 && c.End > 0:
		o.Classes = append(o.Classes, "range_crosses_zero")
	}
	if want > 1000 {
		o.Classes = append(o.Classes, "range_over_1000_rows")
	}
	return o
}

func c21RangeGen(t *rapid.T) c21Range {
	c := c21Range{Minus: rapid.Bool().Draw(t, "minus")}
	switch rapid.IntRange(0, 3).Draw(t, "startkind") {
	case 0:
		c.Start = rapid.Int64Range(-1000, 1000).Draw(t, "start")
	case 1:
		c.Start = rapid.SampledFrom(gen.EdgeInts).Draw(t, "start")
	case 2:
		b := rapid.SampledFrom([]int64{math.MaxInt64, math.MinInt64, 1 << 53, 1 << 31, 1 << 32, -(1 << 31)}).Draw(t, "start")
		d := rapid.Int64Range(-100, 100).Draw(t, "d")
		switch {
		case d > 0 && b > math.MaxInt64-d:
			c.Start = math.MaxInt64
		case d < 0 && b < math.MinInt64-d:
			c.Start = math.MinInt64
		default:
			c.Start = b + d
		}
	default:
		c.Start = rapid.Int64().Draw(t, "start")
	}
	var w int64
	switch rapid.IntRange(0, 29).Draw(t, "wkind") {
	case 17:
		w = rapid.Int64Range(1000, 100000).Draw(t, "w")
	case 1, 2, 3:
		w = rapid.Int64Range(-1000, 0).Draw(t, "w")
	case 4:
		w = -rapid.Int64Range(0, math.MaxInt64).Draw(t, "w")
	default:
		w = rapid.Int64Range(0, 60).Draw(t, "w")
	}
	c.End = c.Start + w
	if w > 0 && c.End < c.Start { // overflow
		c.End = math.MaxInt64
	}
	if w < 0 && c.End > c.Start {
		c.End = math.MinInt64
	}
	return c
}

// ---------------------------------------------------------------------------------------------- poll

type c21Poll struct {
	Snaps  [][][]gen.JV `json:"snaps"` // snapshot i (rows x 2 columns) is what the source returns on its i-th run
	Rounds int          `json:"rounds"`
	SrcET  int64        `json:"src_et"` // event time the source attaches to its records (0 = none)
	Wrap   string       `json:"wrap,omitempty"` // "" | distinct: a stateful operator between the scripted source and poll (it is re-run every round)
}

type pollSource struct{ node execution.Node }

func (p *pollSource) Materialize(ctx context.Context, env physical.Environment, schema physical.Schema, pushedDownPredicates []physical.Expression) (execution.Node, error) {
	return p.node, nil
}
func (p *pollSource) PushDownPredicates(newPredicates, pushedDownPredicates []physical.Expression) (rejected, pushedDown []physical.Expression, changed bool) {
	return newPredicates, nil, false
}

var errStopPoll = errors.New("stop polling (harness sentinel)")

func c21PollProp(c c21Poll) ev.Outcome {
	src := &mon.PerRun{}
	for _, snap := range c.Snaps {
		var msgs []mon.Msg
		for _, row := range snap {
			msgs = append(msgs, mon.Msg{Kind: "rec", Vals: row, T: c.SrcET})
		}
		src.Snaps = append(src.Snaps, msgs)
	}
	colT := gen.JT{K: "union", Parts: []gen.JT{{K: "null"}, {K: "int"}, {K: "str"}}}.Oct()
	var wrapped execution.Node = src
	if c.Wrap == "distinct" {
		wrapped = nodes.NewDistinct(src) // what `poll(source=>TABLE(SELECT DISTINCT ...))` polls: the same node object is run once per round
	}
	args := map[string]physical.TableValuedFunctionArgument{
		"source": {
			TableValuedFunctionArgumentType: physical.TableValuedFunctionArgumentTypeTable,
			Table: &physical.TableValuedFunctionArgumentTable{Table: physical.Node{
				Schema:     physical.NewSchema([]physical.SchemaField{{Name: "a", Type: colT}, {Name: "b", Type: colT}}, -1),
				NodeType:   physical.NodeTypeDatasource,
				Datasource: &physical.Datasource{Name: "perrun", Alias: "p", DatasourceImplementation: &pollSource{wrapped}, VariableMapping: map[string]string{"p.a": "a", "p.b": "b"}},
			}},
		},
		"poll_interval": {
			TableValuedFunctionArgumentType: physical.TableValuedFunctionArgumentTypeExpression,
			Expression: &physical.TableValuedFunctionArgumentExpression{Expression: physical.Expression{
				Type: octosql.Duration, ExpressionType: physical.ExpressionTypeConstant, Constant: &physical.Constant{Value: octosql.NewDuration(time.Millisecond)},
			}},
		},
	}
	ctx := eng.Context()
	node, err := table_valued_functions.Poll.Descriptors[0].Materialize(ctx, eng.Env(nil), args)
	if err != nil {
		return ev.Fail("poll does not materialize: %v", err)
	}
	var rounds [][]mon.Out
	var cur []mon.Out
	var wms []time.Time
	err = node.Run(execution.ExecutionContext{Context: ctx},
		func(ctx execution.ProduceContext, record execution.Record) error {
			vals := make([]octosql.Value, len(record.Values))
			copy(vals, record.Values)
			record.Values = vals
			cur = append(cur, mon.Out{Rec: record})
			return nil
		},
		func(ctx execution.ProduceContext, msg execution.MetadataMessage) error {
			if msg.Type != execution.MetadataMessageTypeWatermark {
				return nil
			}
			rounds = append(rounds, cur)
			cur = nil
			wms = append(wms, msg.Watermark)
			if len(rounds) >= c.Rounds {
				return errStopPoll
			}
			return nil
		})
	if !errors.Is(err, errStopPoll) {
		return ev.Fail("poll over %v: Run returned %v after %d rounds, want the sentinel error of the consumer after %d watermarks", c.Snaps, err, len(rounds), c.Rounds)
	}
	if len(cur) != 0 || len(rounds) != c.Rounds {
		return ev.Fail("poll over %v: %d rounds, %d trailing messages after the consumer failed", c.Snaps, len(rounds), len(cur))
	}
	if src.Runs != c.Rounds {
		return ev.Fail("poll over %v: the source was run %d times in %d rounds", c.Snaps, src.Runs, c.Rounds)
	}
	snapOf := func(i int) [][]gen.JV {
		if len(c.Snaps) == 0 {
			return nil
		}
		if i >= len(c.Snaps) {
			i = len(c.Snaps) - 1
		}
		if c.Wrap == "distinct" {
			var out [][]gen.JV
			seen := map[string]bool{}
			for _, row := range c.Snaps[i] {
				if k := mon.RowKey(gen.Octs(row)); !seen[k] {
					seen[k] = true
					out = append(out, row)
				}
			}
			return out
		}
		return c.Snaps[i]
	}
	describe := func() string {
		var sb strings.Builder
		for i, r := range rounds {
			fmt.Fprintf(&sb, "\n  round %d: %s ; wm", i, mon.FormatOuts(r))
		}
		return sb.String()
	}
	var prev []mon.Out // the inserts of the previous round, as emitted
	changed := false
	for i, round := range rounds {
		snap := snapOf(i)
		if len(round) != len(prev)+len(snap) {
			return ev.Fail("poll over %v: round %d has %d records, want %d retractions of the previous snapshot + %d current rows%s", c.Snaps, i, len(round), len(prev), len(snap), describe())
		}
		retracted, previous := mon.Bag{}, mon.Bag{}
		for _, p := range prev {
			previous.Add(mon.RowKey(p.Rec.Values), 1)
		}
		for j := 0; j < len(prev); j++ {
			if !round[j].Rec.Retraction {
				return ev.Fail("poll over %v: round %d message %d is not a retraction; want the %d rows of the previous snapshot retracted first%s", c.Snaps, i, j, len(prev), describe())
			}
			retracted.Add(mon.RowKey(round[j].Rec.Values), 1)
		}
		if !retracted.Equal(previous) {
			return ev.Fail("poll over %v: round %d retracts %s, the previous round emitted %s%s", c.Snaps, i, retracted, previous, describe())
		}
		got, want := mon.Bag{}, mon.Bag{}
		for _, row := range snap {
			want.Add(mon.RowKey(gen.Octs(row)), 1)
		}
		for j := len(prev); j < len(round); j++ {
			rec := round[j].Rec
			if rec.Retraction || len(rec.Values) != 3 || rec.Values[0].TypeID != octosql.TypeIDTime {
				return ev.Fail("poll over %v: round %d message %d is %s, want an inserted (time, a, b) row of the current snapshot%s", c.Snaps, i, j, rec.String(), describe())
			}
			// the `time` column is the declared time field of poll's output: one value per round, covered by the round's
			// watermark and above the previous one (only order/equality of clock readings is compared, never their value)
			if !rec.Values[0].Time.Equal(round[len(prev)].Rec.Values[0].Time) || rec.Values[0].Time.After(wms[i]) || (i > 0 && !rec.Values[0].Time.After(wms[i-1])) {
				return ev.Fail("poll over %v: round %d message %d carries time %s; watermarks: previous %v, this round %s%s", c.Snaps, i, j, rec.Values[0].Time, wms[:i], wms[i], describe())
			}
			got.Add(mon.RowKey(rec.Values[1:]), 1)
		}
		if !got.Equal(want) {
			return ev.Fail("poll over %v: round %d emits %s, the source's snapshot is %s%s", c.Snaps, i, got, want, describe())
		}
		if i > 0 && wms[i].Before(wms[i-1]) {
			return ev.Fail("poll over %v: watermark of round %d (%s) is below the previous one (%s)", c.Snaps, i, wms[i], wms[i-1])
		}
		if i > 0 && len(prev) > 0 && fmt.Sprint(snapOf(i-1)) != fmt.Sprint(snap) {
			changed = true
		}
		prev = round[len(prev):]
	}
	o := ev.Outcome{NonTrivial: changed, Key: fmt.Sprint(c.Snaps, c.Rounds)}
	if changed {
		o.Classes = append(o.Classes, "poll_snapshot_changed_between_rounds")
	}
	o.Classes = append(o.Classes, fmt.Sprintf("poll_rounds_%d", c.Rounds))
	if c.SrcET != 0 {
		o.Classes = append(o.Classes, "poll_source_sets_event_times")
	}
	if c.Wrap != "" {
		o.Classes = append(o.Classes, "poll_over_"+c.Wrap)
	}
	return o
}

func c21PollGen(t *rapid.T) c21Poll {
	c := c21Poll{Rounds: rapid.SampledFrom([]int{1, 2, 2, 3, 3, 4}).Draw(t, "rounds")}
	if rapid.IntRange(0, 2).Draw(t, "wrap") == 0 {
		c.Wrap = "distinct"
	}
	if rapid.Bool().Draw(t, "srcet") {
		c.SrcET = rapid.Int64Range(1, 1<<60).Draw(t, "et")
	}
	pool := []gen.JV{gen.Int(0), gen.Int(1), gen.Str("a"), gen.Str(""), gen.Null()}
	ns := c.Rounds
	if rapid.IntRange(0, 4).Draw(t, "fewer") == 0 {
		ns = rapid.IntRange(0, c.Rounds).Draw(t, "nsnaps")
	}
	for i := 0; i < ns; i++ {
		n := rapid.IntRange(1, 4).Draw(t, "nrows")
		if rapid.IntRange(0, 5).Draw(t, "emptysnap") == 0 {
			n = 0
		}
		snap := make([][]gen.JV, n)
		for j := range snap {
			snap[j] = []gen.JV{rapid.SampledFrom(pool).Draw(t, "a"), rapid.SampledFrom(pool).Draw(t, "b")}
		}
		c.Snaps = append(c.Snaps, snap)
	}
	return c
}

func TestC21(t *testing.T) {
	r := ev.New("C21", "exploration",
		"tumble_pruned_columns: the tumble cases over a wider source (0-3 time-typed columns before and 0-2 after the declared time field, holding times several windows away) of which the query selects ts, the window bounds and a random subset of the other columns, time_field omitted, optimised and not: every record's window must contain its ts; poll: in a third of the cases a DISTINCT node sits between the scripted source and poll (the same node object is re-run every round; expected snapshot = distinct rows). "+
			"tumble: rapid cases of 0-8 records (id, ts, x) + source watermarks through SELECT * FROM tumble(...) over an in-memory table (optimised and not); window length in [1 ns, 2^50 ns] (7 ns .. 1 week, random), "+
			"offset omitted / 0 / negative / beyond one length, time_field explicit or the source's declared one; times walk in quarter-length steps and hit window boundaries +-1 ns, before and after 1970. "+
			"Oracle: start <= t < end, end - start = length, (start - offset) a multiple of the length counted from the Unix epoch or from 0001-01-01 (one origin for all records of a case), "+
			"id/ts/x/retraction flag and every watermark unchanged and in order; event time: the source's or window_end. non-trivial: two distinct windows. "+
			"range_exhaustive: every (start, end) in [-20,20]^2; range_random: wide starts (int64 edges) with end - start in [-2^63, 10^5]; oracle: exactly start..end-1 ascending, one inserted Int each; non-trivial: >= 2 rows. "+
			"poll: the node from Poll.Descriptors[0].Materialize over a source that returns snapshot i on its i-th run (0-4 rows of 2 columns, duplicates, NULLs), interval 1 ms, stopped by a sentinel error from the consumer at the k-th watermark (k <= 4); "+
			"oracle: round i = retractions of exactly the rows emitted in round i-1, then the current snapshot as inserted (time, a, b) rows with one time value per round lying in (previous watermark, this watermark], then one watermark, non-decreasing; "+
			"the source is run once per round and the consumer's error is returned. non-trivial: a non-empty snapshot replaced by a different one.",
		"poll's interval argument is built by hand (physical constant): it cannot be passed through SQL at all",
		"the wall clock is read by poll only; the oracle compares clock readings with each other, never with a value of its own")
	ev.Check(t, r, "tumble", ev.N(120000, 2500000), c21TumbleGen, c21TumbleProp)
	ev.Check(t, r, "tumble_pruned_columns", ev.N(40000, 800000), c21PrunedGen, c21PrunedProp)
	ev.Enumerate(t, r, "range_exhaustive", func(yield func(c21Range) bool) {
		for s := int64(-20); s <= 20; s++ {
			for e := int64(-20); e <= 20; e++ {
				if !yield(c21Range{Start: s, End: e, Minus: (s+e)%2 == 0}) {
					return
				}
			}
		}
	}, c21RangeProp)
	ev.Check(t, r, "range_random", ev.N(60000, 1000000), c21RangeGen, c21RangeProp)
	ev.Check(t, r, "poll", ev.N(400, 5000), c21PollGen, c21PollProp)
}
