package pc25

import (
	"os"
	"testing"

	"verifharness/cli"
	"verifharness/ev"
)

func TestMain(m *testing.M) {
	code := m.Run()
	cli.StopServer() // sql_cli drives the server-mode binary
	ev.Flush()
	os.Exit(code)
}
