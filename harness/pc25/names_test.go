package pc25

import (
	"fmt"
	"strconv"
	"strings"

	"pgregory.net/rapid"
)

// Column names as they reach a formatter. A result column is `qualifier.column` (a column of the table aliased
// `qualifier`; the column part may contain dots itself: the JSON key / CSV header "user.name" of table t arrives as
// `t.user.name`) or a bare name (an alias, a computed column). Both formatters print a shortened name where they think
// that is unambiguous, so the interesting schemas mix qualified and bare names whose last segments collide:
// `e.id` next to an alias `id`, `p.id` next to `q.id`, `t.u.a` next to `u.a`.

// nameFits: key names the column: it is the column's name, or the name without some leading dot-separated segments.
func nameFits(key, name string) bool {
	return key == name || strings.HasSuffix(name, "."+key)
}

// matchMemberNames: one printed name per column, printed name i fits column i, and (unless dupOK) no printed name twice.
func matchMemberNames(names, keys []string, obs *feat, dupOK bool) error {
	if len(keys) != len(names) {
		return fmt.Errorf("columns %q were written with the %d names %q, want one per column", names, len(keys), keys)
	}
	seen := map[string]int{}
	for i, k := range keys {
		if !nameFits(k, names[i]) {
			return fmt.Errorf("columns %q were written with names %q: name %d %q is neither column %d's name %q nor that name without leading qualifiers", names, keys, i, k, i, names[i])
		}
		if j, dup := seen[k]; dup {
			if !dupOK {
				return fmt.Errorf("columns %q were written with names %q: %q names both column %d and column %d, so a decoder keeps only one of the two values", names, keys, k, j, i)
			}
			obs.add("observed_repeated_name_in_csv_header")
		}
		seen[k] = i
		switch {
		case k != names[i]:
			obs.add("observed_qualifier_stripped")
		case strings.Contains(k, "."):
			obs.add("observed_dotted_name_printed_whole")
		}
	}
	return nil
}

// afterFirstDot: the name without its first segment (the whole name if it has no dot).
func afterFirstDot(name string) string {
	if i := strings.Index(name, "."); i >= 0 {
		return name[i+1:]
	}
	return name
}

// nameFeatures labels the naming shape of a schema.
func nameFeatures(f *feat, names []string) {
	qualified, bare := 0, 0
	for _, n := range names {
		if strings.Contains(n, ".") {
			qualified++
		} else {
			bare++
		}
	}
	switch {
	case qualified == 0:
		f.add("colnames_all_bare")
	case bare == 0:
		f.add("colnames_all_qualified")
	default:
		f.add("colnames_qualified_and_bare")
	}
	for i, a := range names {
		if strings.Count(a, ".") >= 2 {
			f.add("colnames_column_part_contains_a_dot")
		}
		for j, b := range names {
			if i == j || !strings.Contains(a, ".") {
				continue
			}
			switch {
			case !strings.Contains(b, ".") && afterFirstDot(a) == b:
				f.add("colnames_qualified_name_vs_bare_name_equal_to_its_column_part")
			case strings.Contains(b, ".") && i < j && afterFirstDot(a) == afterFirstDot(b):
				f.add("colnames_two_qualified_names_share_the_column_part")
			case strings.HasSuffix(a, "."+b):
				f.add("colnames_name_is_dotted_suffix_of_another")
			}
		}
	}
}

// stripCollision recognises the recorded finding json-qualifier-strip-duplicate-key on one printed line: every
// repeated member name K occurs exactly twice, K contains a dot, one occurrence belongs to a column named exactly K
// (left unshortened because another column shares K's column part), the other to a column named <segment>.K (shortened
// to K because nothing else has the column part K).
func stripCollision(names []string, line []byte) bool {
	n, err := parseJSONLine(line)
	if err != nil || n.kind != 'o' || len(n.keys) != len(names) {
		return false
	}
	at := map[string][]int{}
	for i, k := range n.keys {
		at[k] = append(at[k], i)
	}
	found := false
	for k, pos := range at {
		if len(pos) == 1 {
			continue
		}
		if len(pos) != 2 || !strings.Contains(k, ".") {
			return false
		}
		i, j := pos[0], pos[1]
		if names[i] != k {
			i, j = j, i
		}
		if names[i] != k || afterFirstDot(names[j]) != k || names[j] == k {
			return false
		}
		shared := false
		for m, other := range names {
			shared = shared || (m != i && afterFirstDot(other) == afterFirstDot(k))
		}
		if !shared {
			return false
		}
		found = true
	}
	return found
}

var qualifierPool = []string{"t", "u", "e"}
var columnPartPool = []string{"a", "b", "id", "name"}

// column parts with dots of their own; "u.a" / "t.id" look like another table's qualified column
var dottedColumnParts = []string{"a.b", "u.a", "t.id", "user.name", "b.", ".a", "a..b"}

// genColumnNames: 45% the plain schemas (c0, c1, ... partly replaced by names needing escapes); 5% the schema
// `x.y.part`, `y.part` [, a third column with or without the same part]; otherwise every column
// draws a column part from a pool of four (so that parts repeat), rarely one with dots or a special name, and is bare
// or qualified by one of three table aliases. A name drawn twice gets the suffix the planner would give it (_1, _2).
func genColumnNames(t *rapid.T, n int, pool []string) []string {
	naming := rapid.IntRange(0, 19).Draw(t, "naming")
	if naming < 9 {
		return genTopNames(t, n, pool)
	}
	if naming == 19 && n >= 2 {
		// a column of table x named like a qualified column of table y: `x.y.part` next to `y.part` [and another `part`]
		q := rapid.Permutation(qualifierPool).Draw(t, "qualifiers")
		part := rapid.SampledFrom(columnPartPool).Draw(t, "part")
		third := rapid.SampledFrom([]string{part, q[2] + "." + part, q[2] + ".other", "other"}).Draw(t, "third")
		names := append([]string{q[0] + "." + q[1] + "." + part, q[1] + "." + part, third}, "z")[:n]
		return rapid.Permutation(names).Draw(t, "order")
	}
	names := make([]string, n)
	seen := map[string]bool{}
	for i := range names {
		l := "n" + strconv.Itoa(i)
		part := ""
		switch k := rapid.IntRange(0, 15).Draw(t, l+"kind"); {
		case k < 12:
			part = rapid.SampledFrom(columnPartPool).Draw(t, l+"part")
		case k < 14:
			part = rapid.SampledFrom(dottedColumnParts).Draw(t, l+"dotted")
		default:
			part = rapid.SampledFrom(pool).Draw(t, l+"special")
		}
		name := part
		if rapid.IntRange(0, 4).Draw(t, l+"qualified") < 3 {
			name = rapid.SampledFrom(qualifierPool).Draw(t, l+"q") + "." + part
		}
		for k := 1; seen[name]; k++ {
			name = name + "_" + strconv.Itoa(k)
		}
		seen[name] = true
		names[i] = name
	}
	return names
}
