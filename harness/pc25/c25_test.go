package pc25

import (
	"bufio"
	"bytes"
	"encoding/csv"
	"encoding/json"
	"fmt"
	"io"
	"math"
	"math/big"
	"sort"
	"strconv"
	"strings"
	"testing"
	"time"
	"unicode/utf8"

	"github.com/cube2222/octosql/octosql"
	"github.com/cube2222/octosql/outputs/formats"
	"github.com/cube2222/octosql/physical"
	"pgregory.net/rapid"

	"verifharness/cli"
	"verifharness/ev"
	"verifharness/gen"
	"verifharness/model"
)

// C25 — CSV and JSON output faithfully encode results.
//
// The formatters are driven exactly as outputs/eager/eager.go drives them: a bufio.Writer, SetSchema, one Write per
// row, Close. The harness flushes the bufio.Writer after the header and after every row, so that it knows which bytes
// belong to which row (csv.NewWriter re-uses a *bufio.Writer it is handed, so the flush reaches the csv writer too).

type c25Case struct {
	Names []string   `json:"names"`
	Types []gen.JT   `json:"types"`
	Rows  [][]gen.JV `json:"rows"`
}

var rec *ev.Rec

// ---- domain -------------------------------------------------------------------------------------------------------

func scalarKind(k string) bool {
	switch k {
	case "null", "int", "float", "bool", "str", "time", "dur":
		return true
	}
	return false
}

func distinct(names []string) bool {
	seen := map[string]bool{}
	for _, n := range names {
		if seen[n] || !utf8.ValidString(n) {
			return false
		}
		seen[n] = true
	}
	return true
}

// validType: the normal form octosql produces (no Any, unions flat with one alternative per kind), object field names
// distinct (a JSON object with a repeated key has no interoperable meaning, RFC 8259 §4).
func validType(t gen.JT, scalarOnly bool) bool {
	switch t.K {
	case "list":
		return !scalarOnly && (t.Elem == nil || validType(*t.Elem, false))
	case "struct":
		if scalarOnly || len(t.Names) != len(t.Parts) || !distinct(t.Names) {
			return false
		}
		for _, p := range t.Parts {
			if !validType(p, false) {
				return false
			}
		}
		return true
	case "tuple":
		if scalarOnly {
			return false
		}
		for _, p := range t.Parts {
			if !validType(p, false) {
				return false
			}
		}
		return true
	case "union":
		if len(t.Parts) < 2 {
			return false
		}
		seen := map[string]bool{}
		for _, p := range t.Parts {
			if p.K == "union" || seen[p.K] || !validType(p, scalarOnly) {
				return false
			}
			seen[p.K] = true
		}
		return true
	}
	return scalarKind(t.K)
}

func validValue(v gen.JV) bool {
	switch v.K {
	case "float":
		f := v.Float()
		return !math.IsNaN(f) && !math.IsInf(f, 0)
	case "str":
		return utf8.ValidString(v.S)
	case "time":
		y := time.Unix(0, v.I).UTC().Year()
		return y >= 1 && y <= 9999
	}
	for _, e := range v.L {
		if !validValue(e) {
			return false
		}
	}
	return true
}

func (c c25Case) inDomain(scalarOnly bool) bool {
	if len(c.Names) == 0 || len(c.Names) != len(c.Types) || !distinct(c.Names) || len(c.Rows) == 0 {
		return false
	}
	for _, n := range c.Names {
		if n == "" {
			return false
		}
	}
	for _, t := range c.Types {
		if !validType(t, scalarOnly) {
			return false
		}
	}
	for _, row := range c.Rows {
		if len(row) != len(c.Types) {
			return false
		}
		for i, v := range row {
			if !validValue(v) || !model.Conforms(v.Oct(), c.Types[i].Oct()) {
				return false
			}
		}
	}
	return true
}

func (c c25Case) schema() physical.Schema {
	fields := make([]physical.SchemaField, len(c.Names))
	for i := range fields {
		fields[i] = physical.SchemaField{Name: c.Names[i], Type: c.Types[i].Oct()}
	}
	return physical.NewSchema(fields, -1, physical.WithNoRetractions(true))
}

// ---- features (non-triviality, classes) ------------------------------------------------------------------------------

type feat struct {
	set map[string]bool
}

func (f *feat) add(s string) {
	if f.set == nil {
		f.set = map[string]bool{}
	}
	f.set[s] = true
}

func (f *feat) list() []string {
	out := make([]string, 0, len(f.set))
	for k := range f.set {
		out = append(out, k)
	}
	sort.Strings(out)
	return out
}

func (f *feat) nonTrivial() bool {
	for k := range f.set {
		if strings.HasPrefix(k, "str_needs_") || strings.HasPrefix(k, "nested_") || strings.HasPrefix(k, "extreme_") || strings.HasPrefix(k, "name_needs_") {
			return true
		}
	}
	return false
}

func jsonNeedsEscape(s string) bool {
	for i := 0; i < len(s); i++ {
		if s[i] < 0x20 || s[i] == 0x7f || s[i] == '"' || s[i] == '\\' {
			return true
		}
	}
	return false
}

func csvNeedsQuote(s string) bool {
	return strings.ContainsAny(s, ",\"\r\n") || strings.HasPrefix(s, " ") || strings.HasPrefix(s, "\t") || s == `\.`
}

func stringFeatures(f *feat, s string, csvMode bool, what string) {
	if csvMode {
		if csvNeedsQuote(s) {
			f.add(what + "_needs_csv_quoting")
		}
		if strings.Contains(s, "\r\n") {
			f.add("str_with_crlf")
		}
	} else if jsonNeedsEscape(s) {
		f.add(what + "_needs_json_escaping")
	}
	for _, r := range s {
		switch {
		case r < 0x20 || r == 0x7f:
			f.add("str_has_control_char")
		case r > 0xffff:
			f.add("str_has_astral_rune")
		case r >= 0x80:
			f.add("str_has_multibyte_rune")
		}
	}
	if s == "" {
		f.add("str_empty")
	}
}

func floatRepr(f float64) string { return strconv.FormatFloat(f, 'g', -1, 64) }

func valueFeatures(f *feat, v gen.JV, depth int, csvMode bool) {
	switch v.K {
	case "null":
		f.add("value_null")
	case "int":
		if v.I > 1<<53 || v.I < -(1<<53) {
			f.add("extreme_int_beyond_2^53")
		}
	case "float":
		s := floatRepr(v.Float())
		if strings.ContainsAny(s, "e") || len(strings.TrimLeft(s, "-")) >= 17 {
			f.add("extreme_float_exponent_or_17_digits")
		}
		if v.Float() == 0 && math.Signbit(v.Float()) {
			f.add("float_negative_zero")
		}
	case "str":
		stringFeatures(f, v.S, csvMode, "str")
	case "time":
		f.add("value_time")
	case "dur":
		f.add("value_duration")
	case "list", "struct", "tuple":
		f.add(fmt.Sprintf("nested_%s_depth%d", v.K, depth+1))
		for _, e := range v.L {
			valueFeatures(f, e, depth+1, csvMode)
		}
	}
}

func typeFeatures(f *feat, t gen.JT) {
	if t.K == "union" {
		f.add("column_or_field_of_union_type")
	}
	for _, n := range t.Names {
		if jsonNeedsEscape(n) {
			f.add("name_needs_json_escaping")
		}
	}
	if t.Elem != nil {
		typeFeatures(f, *t.Elem)
	}
	for _, p := range t.Parts {
		typeFeatures(f, p)
	}
}

// ---- JSON decoding into an ordered tree ------------------------------------------------------------------------------

type jnode struct {
	kind byte // n b # s a o
	b    bool
	num  string
	s    string
	arr  []*jnode
	keys []string
}

func readNode(dec *json.Decoder) (*jnode, error) {
	tok, err := dec.Token()
	if err != nil {
		return nil, err
	}
	switch x := tok.(type) {
	case nil:
		return &jnode{kind: 'n'}, nil
	case bool:
		return &jnode{kind: 'b', b: x}, nil
	case json.Number:
		return &jnode{kind: '#', num: string(x)}, nil
	case string:
		return &jnode{kind: 's', s: x}, nil
	case json.Delim:
		switch x {
		case '[':
			n := &jnode{kind: 'a'}
			for dec.More() {
				e, err := readNode(dec)
				if err != nil {
					return nil, err
				}
				n.arr = append(n.arr, e)
			}
			_, err := dec.Token()
			return n, err
		case '{':
			n := &jnode{kind: 'o'}
			for dec.More() {
				k, err := dec.Token()
				if err != nil {
					return nil, err
				}
				ks, ok := k.(string)
				if !ok {
					return nil, fmt.Errorf("object key is not a string")
				}
				e, err := readNode(dec)
				if err != nil {
					return nil, err
				}
				n.keys = append(n.keys, ks)
				n.arr = append(n.arr, e)
			}
			_, err := dec.Token()
			return n, err
		}
	}
	return nil, fmt.Errorf("unexpected token %v", tok)
}

func parseJSONLine(line []byte) (*jnode, error) {
	if !json.Valid(line) {
		var x interface{}
		err := json.Unmarshal(line, &x)
		return nil, fmt.Errorf("not valid JSON (%v)", err)
	}
	dec := json.NewDecoder(bytes.NewReader(line))
	dec.UseNumber()
	n, err := readNode(dec)
	if err != nil {
		return nil, err
	}
	if _, err := dec.Token(); err != io.EOF {
		return nil, fmt.Errorf("more than one JSON value on the line")
	}
	return n, nil
}

func numIsInt(tok string, want int64) bool {
	if i, err := strconv.ParseInt(tok, 10, 64); err == nil {
		return i == want
	}
	r, ok := new(big.Rat).SetString(tok)
	return ok && r.Cmp(new(big.Rat).SetInt64(want)) == 0
}

// floatEqual: the decoded float64 is the value. Only finite values are in the domain, so == is bit equality except
// for the sign of a zero; the statement says "exact", and -0.0 and 0.0 are the same number, so both are accepted.
func floatEqual(tok string, want float64) bool {
	g, err := strconv.ParseFloat(tok, 64)
	return err == nil && g == want
}

func altFor(t gen.JT, v gen.JV) (gen.JT, bool) {
	if t.K != "union" {
		return t, t.K == v.K
	}
	for _, p := range t.Parts {
		if p.K == v.K {
			return p, true
		}
	}
	return t, false
}

var kindName = map[byte]string{'n': "null", 'b': "boolean", '#': "number", 's': "string", 'a': "array", 'o': "object"}

func matchJSON(path string, t gen.JT, v gen.JV, n *jnode, obs *feat) error {
	t, ok := altFor(t, v)
	if !ok {
		return fmt.Errorf("harness: value %s does not fit type at %s", v, path)
	}
	want := func(k byte) error {
		if n.kind != k {
			return fmt.Errorf("%s: value %s was written as a JSON %s, want %s", path, v.Oct(), kindName[n.kind], kindName[k])
		}
		return nil
	}
	switch v.K {
	case "null":
		return want('n')
	case "int":
		if err := want('#'); err != nil {
			return err
		}
		if !numIsInt(n.num, v.I) {
			return fmt.Errorf("%s: Int %d was written as %s", path, v.I, n.num)
		}
	case "float":
		if err := want('#'); err != nil {
			return err
		}
		if !floatEqual(n.num, v.Float()) {
			return fmt.Errorf("%s: Float %s (bits %s) was written as %s", path, floatRepr(v.Float()), v.F, n.num)
		}
		if g, _ := strconv.ParseFloat(n.num, 64); math.Signbit(g) != math.Signbit(v.Float()) {
			obs.add("observed_sign_of_zero_lost")
		}
	case "bool":
		if err := want('b'); err != nil {
			return err
		}
		if n.b != v.B {
			return fmt.Errorf("%s: Boolean %v was written as %v", path, v.B, n.b)
		}
	case "str":
		if err := want('s'); err != nil {
			return err
		}
		if n.s != v.S {
			return fmt.Errorf("%s: String %q decodes to %q", path, v.S, n.s)
		}
	case "time":
		// the statement does not list times: only a string that parses as a timestamp is demanded
		if err := want('s'); err != nil {
			return err
		}
		g, err := time.Parse(time.RFC3339, n.s)
		if err != nil {
			return fmt.Errorf("%s: Time %s was written as %q which does not parse as RFC3339: %v", path, v.Oct(), n.s, err)
		}
		if g.Unix() != time.Unix(0, v.I).Unix() {
			obs.add("observed_time_differs_in_seconds")
		} else if g.UnixNano() != v.I {
			obs.add("observed_time_subsecond_part_dropped")
		}
	case "dur":
		if err := want('s'); err != nil {
			return err
		}
	case "list", "tuple":
		if err := want('a'); err != nil {
			return err
		}
		if len(n.arr) != len(v.L) {
			return fmt.Errorf("%s: %s %s with %d elements was written as an array of %d", path, v.K, v.Oct(), len(v.L), len(n.arr))
		}
		for i := range v.L {
			et := gen.JT{}
			if v.K == "list" {
				et = *t.Elem
			} else {
				et = t.Parts[i]
			}
			if err := matchJSON(fmt.Sprintf("%s[%d]", path, i), et, v.L[i], n.arr[i], obs); err != nil {
				return err
			}
		}
	case "struct":
		if err := want('o'); err != nil {
			return err
		}
		if len(n.keys) != len(t.Names) {
			return fmt.Errorf("%s: object with fields %q was written with keys %q", path, t.Names, n.keys)
		}
		for i, name := range t.Names {
			at := -1
			for j, k := range n.keys {
				if k == name {
					if at >= 0 {
						return fmt.Errorf("%s: key %q occurs twice", path, name)
					}
					at = j
				}
			}
			if at < 0 {
				return fmt.Errorf("%s: object with fields %q was written with keys %q", path, t.Names, n.keys)
			}
			if err := matchJSON(path+"->"+strconv.Quote(name), t.Parts[i], v.L[i], n.arr[at], obs); err != nil {
				return err
			}
		}
	}
	return nil
}

func matchJSONRow(c c25Case, row []gen.JV, line []byte, obs *feat) error {
	return matchJSONRowOpt(c, row, line, obs, false)
}

// matchJSONRowOpt: the line is one JSON object with one member per column, in column order (outputs print the columns
// in schema order); member i is named like column i - the column's name or what remains of it after dropping leading
// dot-separated qualifier segments (the statement does not say how a column is named, `t.a` is printed as "a" when that
// is unambiguous) - no name occurs twice (a decoder keeps only one of two members with the same name, so one of the
// row's values would be lost), and member i decodes to value i. dupOK switches the no-name-twice demand off
// (classifier use only).
func matchJSONRowOpt(c c25Case, row []gen.JV, line []byte, obs *feat, dupOK bool) error {
	if len(line) == 0 || line[len(line)-1] != '\n' || bytes.IndexByte(line[:len(line)-1], '\n') >= 0 {
		return fmt.Errorf("the row was not written as exactly one line")
	}
	n, err := parseJSONLine(line)
	if err != nil {
		return err
	}
	if n.kind != 'o' {
		return fmt.Errorf("the row was written as a JSON %s, want object", kindName[n.kind])
	}
	if err := matchMemberNames(c.Names, n.keys, obs, dupOK); err != nil {
		return err
	}
	for i := range c.Names {
		if err := matchJSON("row->"+strconv.Quote(n.keys[i]), c.Types[i], row[i], n.arr[i], obs); err != nil {
			return err
		}
	}
	return nil
}

// ---- known finding: Go escapes instead of JSON escapes -----------------------------------------------------------------

func isHex(b byte) bool {
	return b >= '0' && b <= '9' || b >= 'a' && b <= 'f' || b >= 'A' && b <= 'F'
}

// repairGoEscapes rewrites, inside string literals only, the escape sequences that exist in Go but not in JSON
// (\a \v \xHH with HH<0x80, \UHHHHHHHH) into their JSON spelling. It returns how many it rewrote.
func repairGoEscapes(line []byte) ([]byte, int) {
	out := make([]byte, 0, len(line)+16)
	inStr := false
	n := 0
	for i := 0; i < len(line); i++ {
		c := line[i]
		if !inStr {
			inStr = c == '"'
			out = append(out, c)
			continue
		}
		if c == '"' {
			inStr = false
			out = append(out, c)
			continue
		}
		if c != '\\' || i+1 >= len(line) {
			out = append(out, c)
			continue
		}
		e := line[i+1]
		switch {
		case e == 'a':
			out = append(out, `\u0007`...)
			i++
			n++
		case e == 'v':
			out = append(out, `\u000b`...)
			i++
			n++
		case e == 'x' && i+3 < len(line) && isHex(line[i+2]) && isHex(line[i+3]) && line[i+2] < '8':
			out = append(out, `\u00`...)
			out = append(out, line[i+2], line[i+3])
			i += 3
			n++
		case e == 'U' && i+9 < len(line):
			r, err := strconv.ParseUint(string(line[i+2:i+10]), 16, 32)
			if err != nil || r > 0x10ffff || r < 0x10000 {
				out = append(out, c)
				continue
			}
			r -= 0x10000
			out = append(out, fmt.Sprintf(`\u%04x\u%04x`, 0xd800+(r>>10), 0xdc00+(r&0x3ff))...)
			i += 9
			n++
		default:
			out = append(out, c, e)
			i++
		}
	}
	return out, n
}

// goEscapeTrigger: fastjson takes its slow path (strconv.AppendQuote) for s, and s has a rune that AppendQuote
// writes with an escape JSON does not know.
func goEscapeTrigger(s string) bool {
	slow := false
	for i := 0; i < len(s); i++ {
		if s[i] < 0x20 || s[i] == '"' || s[i] == '\\' {
			slow = true
		}
	}
	if !slow {
		return false
	}
	for _, r := range s {
		switch {
		case r < 0x20:
			if r != '\b' && r != '\f' && r != '\n' && r != '\r' && r != '\t' {
				return true
			}
		case r == 0x7f:
			return true
		case r > 0xffff && !strconv.IsPrint(r):
			return true
		}
	}
	return false
}

func printedStrings(t gen.JT, v gen.JV, f func(string)) {
	t, _ = altFor(t, v)
	switch v.K {
	case "str":
		f(v.S)
	case "list":
		for _, e := range v.L {
			printedStrings(*t.Elem, e, f)
		}
	case "tuple":
		for i, e := range v.L {
			printedStrings(t.Parts[i], e, f)
		}
	case "struct":
		for i, e := range v.L {
			f(t.Names[i])
			printedStrings(t.Parts[i], e, f)
		}
	}
}

// ---- the JSON property ---------------------------------------------------------------------------------------------

func formatRows(c c25Case, mk func(w io.Writer) interface {
	SetSchema(physical.Schema)
	Write([]octosql.Value) error
	Close() error
}) (header []byte, lines [][]byte, whole []byte, err error) {
	var buf bytes.Buffer
	bw := bufio.NewWriterSize(&buf, 1<<16)
	f := mk(bw)
	f.SetSchema(c.schema())
	bw.Flush()
	header = append([]byte{}, buf.Bytes()...)
	at := buf.Len()
	for _, row := range c.Rows {
		if err := f.Write(gen.Octs(row)); err != nil {
			return nil, nil, nil, err
		}
		bw.Flush()
		lines = append(lines, append([]byte{}, buf.Bytes()[at:]...))
		at = buf.Len()
	}
	if err := f.Close(); err != nil {
		return nil, nil, nil, err
	}
	bw.Flush()
	if buf.Len() != at {
		return nil, nil, nil, fmt.Errorf("Close wrote %q after the last row", buf.Bytes()[at:])
	}
	return header, lines, buf.Bytes(), nil
}

func c25JSONProp(c c25Case) ev.Outcome {
	if !c.inDomain(false) {
		return ev.Outcome{Discard: true}
	}
	var f feat
	nameFeatures(&f, c.Names)
	for i, t := range c.Types {
		typeFeatures(&f, t)
		if jsonNeedsEscape(c.Names[i]) {
			f.add("name_needs_json_escaping")
		}
	}
	for _, row := range c.Rows {
		for _, v := range row {
			valueFeatures(&f, v, 0, false)
		}
	}
	header, lines, _, err := formatRows(c, func(w io.Writer) interface {
		SetSchema(physical.Schema)
		Write([]octosql.Value) error
		Close() error
	} {
		return formats.NewJSONFormatter(w)
	})
	if err != nil {
		return ev.Fail("JSON formatter failed on names=%q types=%v rows=%v: %v", c.Names, c.Types, c.Rows, err)
	}
	if len(header) != 0 {
		return ev.Fail("JSON formatter wrote %q before the first row", header)
	}
	excluded := ""
	for i, row := range c.Rows {
		err := matchJSONRow(c, row, lines[i], &f)
		if err == nil {
			continue
		}
		// known finding: Go escape sequences. Precisely: some printed string makes fastjson fall back to strconv.AppendQuote
		// and contains a rune that Go escapes in a way JSON does not know; and once those escapes (and only those) are
		// respelled the JSON way the line passes the whole oracle.
		if rec.Known("json-go-escapes") {
			trig := false
			top := gen.JT{K: "struct", Names: c.Names, Parts: c.Types}
			printedStrings(top, gen.JV{K: "struct", L: row}, func(s string) { trig = trig || goEscapeTrigger(s) })
			if trig {
				if fixed, n := repairGoEscapes(lines[i]); n > 0 && matchJSONRow(c, row, fixed, &f) == nil {
					excluded = "json-go-escapes"
					continue
				}
			}
		}
		// known finding: qualifier stripping that collides with a kept name. Precisely: the only thing wrong with the line
		// is repeated member names, and every repetition is of the recorded kind (see stripCollision).
		if rec.Known("json-qualifier-strip-duplicate-key") && stripCollision(c.Names, lines[i]) && matchJSONRowOpt(c, row, lines[i], &f, true) == nil {
			excluded = "json-qualifier-strip-duplicate-key"
			continue
		}
		return ev.Fail("-o json: row %d of names=%q types=%s values=%s was written as %q: %v", i, c.Names, typesString(c.Types), rowString(row), lines[i], err)
	}
	return ev.Outcome{NonTrivial: f.nonTrivial(), Classes: f.list(), Excluded: excluded}
}

func typesString(ts []gen.JT) string {
	parts := make([]string, len(ts))
	for i := range ts {
		parts[i] = ts[i].Oct().String()
	}
	return "[" + strings.Join(parts, ", ") + "]"
}

func rowString(row []gen.JV) string {
	b, _ := json.Marshal(row)
	return string(b)
}

// ---- CSV -------------------------------------------------------------------------------------------------------------

// parseCSVStrict is the RFC 4180 grammar with LF record ends (what csv.Writer produces): record = field *("," field),
// field = quoted / unquoted, unquoted has no quote, comma, CR or LF. An empty line is a record of one empty field.
func parseCSVStrict(b []byte) ([][]string, error) {
	var records [][]string
	i := 0
	for i < len(b) {
		var rec []string
		for {
			var field []byte
			if i < len(b) && b[i] == '"' {
				i++
				for {
					if i >= len(b) {
						return nil, fmt.Errorf("unterminated quoted field")
					}
					if b[i] == '"' {
						if i+1 < len(b) && b[i+1] == '"' {
							field = append(field, '"')
							i += 2
							continue
						}
						i++
						break
					}
					field = append(field, b[i])
					i++
				}
			} else {
				for i < len(b) && b[i] != ',' && b[i] != '\n' {
					if b[i] == '"' || b[i] == '\r' {
						return nil, fmt.Errorf("bare %q in an unquoted field at offset %d", b[i], i)
					}
					field = append(field, b[i])
					i++
				}
			}
			rec = append(rec, string(field))
			if i >= len(b) {
				return nil, fmt.Errorf("record is not terminated by a newline")
			}
			if b[i] == ',' {
				i++
				continue
			}
			if b[i] == '\n' {
				i++
				break
			}
			return nil, fmt.Errorf("unexpected %q after a quoted field at offset %d", b[i], i)
		}
		records = append(records, rec)
	}
	return records, nil
}

func matchCSVCell(v gen.JV, cell string, obs *feat) error {
	switch v.K {
	case "null":
		if cell != "" {
			return fmt.Errorf("NULL was written as %q, want an empty field", cell)
		}
	case "int":
		g, err := strconv.ParseInt(cell, 10, 64)
		if err != nil || g != v.I {
			return fmt.Errorf("Int %d was written as %q", v.I, cell)
		}
	case "float":
		if !floatEqual(cell, v.Float()) {
			return fmt.Errorf("Float %s (bits %s) was written as %q", floatRepr(v.Float()), v.F, cell)
		}
	case "bool":
		g, err := strconv.ParseBool(cell)
		if err != nil || g != v.B {
			return fmt.Errorf("Boolean %v was written as %q", v.B, cell)
		}
	case "str":
		if cell != v.S {
			return fmt.Errorf("String %q decodes to %q", v.S, cell)
		}
	case "time":
		g, err := time.Parse(time.RFC3339, cell)
		if err != nil {
			return fmt.Errorf("Time %s was written as %q which does not parse as RFC3339: %v", v.Oct(), cell, err)
		}
		if g.Unix() != time.Unix(0, v.I).Unix() {
			obs.add("observed_time_differs_in_seconds")
		} else if g.UnixNano() != v.I {
			obs.add("observed_time_subsecond_part_dropped")
		}
	case "dur":
		if g, err := time.ParseDuration(cell); err != nil || int64(g) != v.I {
			obs.add("observed_duration_text_does_not_parse_back")
		}
	default:
		return fmt.Errorf("harness: non-scalar value in the CSV domain")
	}
	return nil
}

func crlf(s string) string { return strings.ReplaceAll(s, "\r\n", "\n") }

func c25CSVProp(c c25Case) ev.Outcome {
	if !c.inDomain(true) {
		return ev.Outcome{Discard: true}
	}
	var f feat
	nameFeatures(&f, c.Names)
	for i, t := range c.Types {
		typeFeatures(&f, t)
		if csvNeedsQuote(c.Names[i]) {
			f.add("name_needs_csv_quoting")
		}
	}
	for _, row := range c.Rows {
		for _, v := range row {
			valueFeatures(&f, v, 0, true)
		}
	}
	if len(c.Names) == 1 {
		f.add("single_column")
	}
	header, lines, whole, err := formatRows(c, func(w io.Writer) interface {
		SetSchema(physical.Schema)
		Write([]octosql.Value) error
		Close() error
	} {
		return formats.NewCSVFormatter(w)
	})
	if err != nil {
		return ev.Fail("CSV formatter failed on names=%q types=%s rows=%v: %v", c.Names, typesString(c.Types), c.Rows, err)
	}
	describe := func() string {
		return fmt.Sprintf("names=%q types=%s", c.Names, typesString(c.Types))
	}
	hrec, err := parseCSVStrict(header)
	if err != nil || len(hrec) != 1 {
		return ev.Fail("-o csv: header of %s was written as %q, which decodes to %q (%v)", describe(), header, hrec, err)
	}
	// CSV records are positional: a repeated header name loses no value of a record, so it is counted, not judged
	if err := matchMemberNames(c.Names, hrec[0], &f, true); err != nil {
		return ev.Fail("-o csv: header of %s was written as %q, which decodes to %q: %v", describe(), header, hrec, err)
	}
	var expectGo [][]string
	if len(hrec[0]) == 1 && hrec[0][0] == "" {
		// the one column's name is printed as the empty name (`b.` without its qualifier): an empty line, see below
		f.add("observed_single_empty_field_record_is_an_empty_line")
	} else {
		expectGo = append(expectGo, hrec[0])
	}
	for i, row := range c.Rows {
		recs, err := parseCSVStrict(lines[i])
		if err != nil {
			return ev.Fail("-o csv: row %d of %s values=%s was written as %q, which is not an RFC 4180 record: %v", i, describe(), rowString(row), lines[i], err)
		}
		if len(recs) != 1 || len(recs[0]) != len(row) {
			return ev.Fail("-o csv: row %d of %s values=%s was written as %q, which decodes to %d record(s) %q, want one record of %d fields", i, describe(), rowString(row), lines[i], len(recs), recs, len(row))
		}
		for j, v := range row {
			if err := matchCSVCell(v, recs[0][j], &f); err != nil {
				return ev.Fail("-o csv: row %d column %d of %s values=%s was written as %q: %v", i, j, describe(), rowString(row), lines[i], err)
			}
		}
		if len(row) == 1 && recs[0][0] == "" {
			// A record of one empty field is an empty line. RFC 4180's grammar reads that as a record with one empty
			// field, which is what the statement asks for ("NULL as an empty field"); encoding/csv (and other readers)
			// skip empty lines. The statement does not name a reader, so this is accepted and only counted.
			f.add("observed_single_empty_field_record_is_an_empty_line")
			continue
		}
		expectGo = append(expectGo, recs[0])
	}
	// second decoder: encoding/csv must accept the whole output and see the same records. Its two documented
	// deviations from RFC 4180 are allowed for: it skips empty lines and turns CRLF inside a quoted field into LF.
	rd := csv.NewReader(bytes.NewReader(whole))
	rd.FieldsPerRecord = len(c.Names)
	got, err := rd.ReadAll()
	if err != nil {
		return ev.Fail("-o csv: output %q of %s rows=%v is rejected by encoding/csv: %v", whole, describe(), c.Rows, err)
	}
	if len(got) != len(expectGo) {
		return ev.Fail("-o csv: output %q of %s has %d records for encoding/csv, want %d", whole, describe(), len(got), len(expectGo))
	}
	for i := range got {
		for j := range got[i] {
			if got[i][j] != crlf(expectGo[i][j]) {
				return ev.Fail("-o csv: output %q of %s: encoding/csv reads record %d field %d as %q, want %q", whole, describe(), i, j, got[i][j], expectGo[i][j])
			}
		}
	}
	return ev.Outcome{NonTrivial: f.nonTrivial(), Classes: f.list()}
}

// ---- generators ----------------------------------------------------------------------------------------------------

var specialRunes = []rune{0x80, 0x85, 0x9f, 0xa0, 0xad, 0xff, 0x100, 0x7ff, 0x800, 0x200b, 0x200e, 0x2028, 0x2029, 0x202e, 0xd7ff, 0xe000, 0xf8ff, 0xfeff, 0xfffd, 0xfffe, 0xffff}
var astralPrintable = []rune{0x10000, 0x1f600, 0x1f4a9, 0x20000, 0x1d11e}
var astralNonPrintable = []rune{0xe0001, 0xe007f, 0x10ffff, 0xf0000, 0x1fffe, 0x1d173}
var punct = []rune{'"', '\\', ',', '\n', '\r', '\t', ' ', '\'', ';', '/', '{', '}', '[', ']', ':', '.'}
var wordPool = []string{"null", "true", "false", "NaN", "1e5", "-0", "0x10", "\\" + "u0041", `\n`, `\x01`, `""`, `\.`, "\r\n", " ", "1", "2006-01-02T15:04:05Z"}

func genRune(t *rapid.T, label string) rune {
	switch rapid.IntRange(0, 11).Draw(t, label+"cls") {
	case 0:
		return rune(rapid.IntRange(0, 0x1f).Draw(t, label))
	case 1:
		return 0x7f
	case 2, 3:
		return rapid.SampledFrom(punct).Draw(t, label)
	case 4, 5:
		return rune(rapid.IntRange(0x20, 0x7e).Draw(t, label))
	case 6:
		return rune(rapid.IntRange(0x80, 0xff).Draw(t, label))
	case 7:
		return rapid.SampledFrom(specialRunes).Draw(t, label)
	case 8:
		r := rune(rapid.IntRange(0x100, 0xffff).Draw(t, label))
		if r >= 0xd800 && r <= 0xdfff {
			r = 0x6f22
		}
		return r
	case 9:
		return rapid.SampledFrom(astralPrintable).Draw(t, label)
	case 10:
		return rapid.SampledFrom(astralNonPrintable).Draw(t, label)
	default:
		return rune(rapid.IntRange(0x10000, 0x10ffff).Draw(t, label))
	}
}

func genString(t *rapid.T, label string) string {
	switch rapid.IntRange(0, 9).Draw(t, label+"how") {
	case 0:
		return rapid.SampledFrom(gen.EdgeStrings).Draw(t, label)
	case 1:
		return rapid.SampledFrom(wordPool).Draw(t, label)
	}
	n := rapid.IntRange(0, 6).Draw(t, label+"len")
	var sb strings.Builder
	for i := 0; i < n; i++ {
		sb.WriteRune(genRune(t, label+strconv.Itoa(i)))
	}
	return sb.String()
}

func genInt(t *rapid.T, label string) int64 {
	switch rapid.IntRange(0, 3).Draw(t, label+"how") {
	case 0:
		return rapid.SampledFrom(gen.EdgeInts).Draw(t, label)
	case 1:
		return rapid.Int64().Draw(t, label)
	case 2:
		return (1 << 53) + rapid.Int64Range(-3, 3).Draw(t, label)
	}
	return rapid.Int64Range(-1000, 1000).Draw(t, label)
}

var finiteEdgeFloats = func() []float64 {
	var out []float64
	for _, f := range gen.EdgeFloats {
		if !math.IsNaN(f) && !math.IsInf(f, 0) {
			out = append(out, f)
		}
	}
	return append(out, 1e21, 1e20, 1e-6, 1e-7, 123456789012345680, 5e-324, 2.2250738585072014e-308, 0.1+0.2, 1.0/3, -1e-320)
}()

func genFloat(t *rapid.T, label string) float64 {
	switch rapid.IntRange(0, 3).Draw(t, label+"how") {
	case 0:
		return rapid.SampledFrom(finiteEdgeFloats).Draw(t, label)
	case 1:
		// any finite bit pattern
		for {
			f := math.Float64frombits(rapid.Uint64().Draw(t, label))
			if !math.IsNaN(f) && !math.IsInf(f, 0) {
				return f
			}
			label += "'"
		}
	case 2:
		return float64(rapid.IntRange(-4000, 4000).Draw(t, label)) / 8
	}
	return rapid.Float64Range(-1e6, 1e6).Draw(t, label)
}

func valueFor(t *rapid.T, jt gen.JT, label string) gen.JV {
	switch jt.K {
	case "null":
		return gen.Null()
	case "int":
		return gen.Int(genInt(t, label))
	case "float":
		return gen.FromFloat(genFloat(t, label))
	case "str":
		return gen.Str(genString(t, label))
	case "bool", "time", "dur":
		return gen.Scalar(t, jt.K, label)
	case "list":
		if jt.Elem == nil {
			return gen.List()
		}
		n := rapid.IntRange(0, 3).Draw(t, label+"len")
		l := make([]gen.JV, n)
		for i := range l {
			l[i] = valueFor(t, *jt.Elem, label+"e"+strconv.Itoa(i))
		}
		return gen.JV{K: "list", L: l}
	case "struct", "tuple":
		l := make([]gen.JV, len(jt.Parts))
		for i := range l {
			l[i] = valueFor(t, jt.Parts[i], label+"p"+strconv.Itoa(i))
		}
		return gen.JV{K: jt.K, L: l}
	case "union":
		i := rapid.IntRange(0, len(jt.Parts)-1).Draw(t, label+"alt")
		return valueFor(t, jt.Parts[i], label+"u")
	}
	panic("valueFor: bad kind " + jt.K)
}

var specialNames = []string{`a"b`, `a\b`, "", "x y", "é", "a\nb", "a.b", "\x01", "a,b", "😀", " a", "a\tb", "A", "\x7f\"", "\\" + "u0041"}

// renameFields replaces the field names a/b/c of generated object types through an injective map.
func renameFields(jt gen.JT, m map[string]string) gen.JT {
	out := jt
	if jt.Elem != nil {
		e := renameFields(*jt.Elem, m)
		out.Elem = &e
	}
	if jt.Names != nil {
		out.Names = make([]string, len(jt.Names))
		for i, n := range jt.Names {
			out.Names[i] = n
			if r, ok := m[n]; ok {
				out.Names[i] = r
			}
		}
	}
	if jt.Parts != nil {
		out.Parts = make([]gen.JT, len(jt.Parts))
		for i := range jt.Parts {
			out.Parts[i] = renameFields(jt.Parts[i], m)
		}
	}
	return out
}

func genTopNames(t *rapid.T, n int, pool []string) []string {
	names := make([]string, n)
	special := rapid.IntRange(0, 3).Draw(t, "special_names") == 0
	perm := []string(nil)
	if special {
		perm = rapid.Permutation(pool).Draw(t, "name_perm")
	}
	for i := range names {
		names[i] = "c" + strconv.Itoa(i)
		if special && rapid.Bool().Draw(t, "special"+strconv.Itoa(i)) {
			names[i] = perm[i]
		}
	}
	return names
}

var topNamePool = func() []string {
	var out []string
	for _, n := range specialNames {
		if n != "" && !strings.Contains(n, ".") {
			out = append(out, n)
		}
	}
	return out
}()

func genJSONCase(t *rapid.T) c25Case {
	ncols := rapid.IntRange(1, 3).Draw(t, "ncols")
	nrows := rapid.IntRange(1, 3).Draw(t, "nrows")
	c := c25Case{Names: genColumnNames(t, ncols, topNamePool)}
	var m map[string]string
	if rapid.IntRange(0, 3).Draw(t, "rename") == 0 {
		p := rapid.Permutation(specialNames).Draw(t, "field_names")
		m = map[string]string{"a": p[0], "b": p[1], "c": p[2]}
	}
	for i := 0; i < ncols; i++ {
		depth := rapid.SampledFrom([]int{0, 1, 2, 2, 3, 3}).Draw(t, "depth"+strconv.Itoa(i))
		jt := gen.NormType(t, depth, "t"+strconv.Itoa(i))
		if m != nil {
			jt = renameFields(jt, m)
		}
		c.Types = append(c.Types, jt)
	}
	for r := 0; r < nrows; r++ {
		row := make([]gen.JV, ncols)
		for i := range row {
			row[i] = valueFor(t, c.Types[i], fmt.Sprintf("v%d_%d", r, i))
		}
		c.Rows = append(c.Rows, row)
	}
	return c
}

var csvKinds = []string{"null", "int", "float", "bool", "str", "str", "time", "dur"}

func genScalarType(t *rapid.T, label string) gen.JT {
	if rapid.IntRange(0, 2).Draw(t, label+"union") != 0 {
		return gen.JT{K: rapid.SampledFrom(csvKinds).Draw(t, label)}
	}
	// union in normal form: distinct kinds in TypeID order
	order := []string{"null", "int", "float", "bool", "str", "time", "dur"}
	var parts []gen.JT
	for _, k := range order {
		if rapid.IntRange(0, 2).Draw(t, label+k) == 0 {
			parts = append(parts, gen.JT{K: k})
		}
	}
	if len(parts) < 2 {
		return gen.JT{K: "union", Parts: []gen.JT{{K: "null"}, {K: "str"}}}
	}
	return gen.JT{K: "union", Parts: parts}
}

func genCSVCase(t *rapid.T) c25Case {
	ncols := rapid.IntRange(1, 4).Draw(t, "ncols")
	nrows := rapid.IntRange(1, 4).Draw(t, "nrows")
	c := c25Case{Names: genColumnNames(t, ncols, topNamePool)}
	for i := 0; i < ncols; i++ {
		c.Types = append(c.Types, genScalarType(t, "t"+strconv.Itoa(i)))
	}
	for r := 0; r < nrows; r++ {
		row := make([]gen.JV, ncols)
		for i := range row {
			row[i] = valueFor(t, c.Types[i], fmt.Sprintf("v%d_%d", r, i))
		}
		c.Rows = append(c.Rows, row)
	}
	return c
}

// ---- exhaustive string atoms -----------------------------------------------------------------------------------------

func atomRunes() []rune {
	var out []rune
	for r := rune(0); r <= 0x7f; r++ {
		out = append(out, r)
	}
	out = append(out, specialRunes...)
	out = append(out, astralPrintable...)
	out = append(out, astralNonPrintable...)
	return out
}

var atomContexts = []string{"%s", "\"%s", "\\%s", "a%sb", "%s\n", ",%s", " %s", "%s\r\n%s"}

func atomStrings() []string {
	var out []string
	for _, r := range atomRunes() {
		for _, ctx := range atomContexts {
			out = append(out, strings.ReplaceAll(ctx, "%s", string(r)))
		}
	}
	return out
}

func jsonAtomCases(yield func(c25Case) bool) {
	strT := gen.JT{K: "str"}
	for _, s := range atomStrings() {
		// as a column value, inside a list inside an object, as an object's field name, and as the column name
		cases := []c25Case{
			{Names: []string{"c0"}, Types: []gen.JT{strT}, Rows: [][]gen.JV{{gen.Str(s)}}},
			{Names: []string{"c0"}, Types: []gen.JT{{K: "struct", Names: []string{"f"}, Parts: []gen.JT{{K: "list", Elem: &strT}}}}, Rows: [][]gen.JV{{gen.Struct(gen.List(gen.Str(s), gen.Str("ok")))}}},
			{Names: []string{"c0"}, Types: []gen.JT{{K: "struct", Names: []string{s, "z"}, Parts: []gen.JT{{K: "int"}, strT}}}, Rows: [][]gen.JV{{gen.Struct(gen.Int(1), gen.Str("v"))}}},
		}
		if s != "" {
			cases = append(cases, c25Case{Names: []string{s, "z"}, Types: []gen.JT{{K: "int"}, strT}, Rows: [][]gen.JV{{gen.Int(1), gen.Str("v")}}})
		}
		for _, c := range cases {
			if !yield(c) {
				return
			}
		}
	}
}

func csvAtomCases(yield func(c25Case) bool) {
	strT := gen.JT{K: "str"}
	ns := gen.JT{K: "union", Parts: []gen.JT{{K: "null"}, strT}}
	for _, s := range atomStrings() {
		cases := []c25Case{
			{Names: []string{"c0"}, Types: []gen.JT{strT}, Rows: [][]gen.JV{{gen.Str(s)}}},
			{Names: []string{"c0", "c1", "c2"}, Types: []gen.JT{ns, strT, ns}, Rows: [][]gen.JV{{gen.Null(), gen.Str(s), gen.Str("x")}, {gen.Str(s), gen.Str(s), gen.Null()}}},
		}
		if s != "" {
			cases = append(cases, c25Case{Names: []string{s, "z"}, Types: []gen.JT{{K: "int"}, strT}, Rows: [][]gen.JV{{gen.Int(1), gen.Str("v")}}})
		}
		for _, c := range cases {
			if !yield(c) {
				return
			}
		}
	}
}

// numeric atoms: every edge int and finite edge float, as JSON and CSV, also nested
func numberAtomCases(yield func(c25Case) bool) {
	it, ft := gen.JT{K: "int"}, gen.JT{K: "float"}
	num := gen.JT{K: "union", Parts: []gen.JT{it, ft}}
	for _, i := range gen.EdgeInts {
		if !yield(c25Case{Names: []string{"i", "u"}, Types: []gen.JT{it, num}, Rows: [][]gen.JV{{gen.Int(i), gen.Int(i)}}}) {
			return
		}
	}
	for _, f := range finiteEdgeFloats {
		if !yield(c25Case{Names: []string{"f", "u"}, Types: []gen.JT{ft, num}, Rows: [][]gen.JV{{gen.FromFloat(f), gen.FromFloat(f)}}}) {
			return
		}
	}
}

func TestC25(t *testing.T) {
	rec = ev.New("C25", "exploration",
		"json_random / csv_random: a schema of 1-3 (csv: 1-4) columns - named c0, c1, ... / names needing escapes (45%), or (55%) named as results are: a column part from {a, b, id, name} (rarely one with dots of its own: a.b, u.a, t.id, user.name, 'b.', '.a', a..b, or a name needing escapes), bare (alias / computed column) or qualified by a table alias t/u/e, so that schemas mix `e.id` with a bare `id`, `t.id` with `u.id`, `t.u.a` with `u.a`; a repeated name gets the planner's _1 suffix - whose types are drawn in octosql's normal form (gen.NormType, nesting depth <= 3: scalars, lists incl. the element-less [] type, objects, tuples, flat unions; csv: scalars and unions of scalars only), 1-3 (1-4) rows of values generated FROM the types (so they conform; checked again with model.Conforms), "+
			"written through formats.NewJSONFormatter / NewCSVFormatter the way outputs/eager does (bufio.Writer, SetSchema, Write per row, Close; flushed per row so each row's bytes are known). Ints: edge pool (MinInt64, MaxInt64, 2^53+-k) + uniform int64; floats: finite edge pool (+-0, MaxFloat64, 5e-324, 1e21, 0.1+0.2 ...) + uniform finite bit patterns; "+
			"strings: runes from all of 0x00-0x1f, 0x7f, JSON/CSV punctuation, ASCII, Latin-1, BMP (no surrogates), U+2028/FEFF/FFFD/FFFE, printable and non-printable astral runes, plus keyword-like words; object field names and column names partly replaced by names with quotes, backslashes, control characters, spaces, the empty name (fields only). "+
			"json_string_atoms / csv_string_atoms: every rune of 0x00-0x7f and ~30 special runes in 8 contexts (alone, after a quote, after a backslash, between letters, before LF, after a comma, after a space, around CRLF) as column value, nested list element, object field name and column name - exhaustive. number_atoms_*: every edge int and finite edge float, typed exactly and as Int|Float. "+
			"JSON oracle: the row's bytes are one line, valid for encoding/json; an order-preserving token walk (UseNumber) must give an object with one member per column in column order, member i named like column i (its name, or its name without leading dot-separated qualifier segments: the statement does not fix how a column is named) and no member name twice (a decoder keeps one of two equally named members: a value of the row would be lost), Int -> number token whose exact decimal value is the int, Float -> number token whose strconv.ParseFloat equals the value (a differing sign of zero is accepted and counted: same number), String -> byte-equal, NULL -> null, Boolean -> true/false, list/tuple -> array element-wise, object -> object with exactly its field names, Time -> string parsing as RFC3339, Duration -> string. "+
			"CSV oracle: a strict RFC 4180 reader written here must give one record per row with one field per column; NULL -> empty, Int via ParseInt, Float via ParseFloat equal, Boolean via ParseBool, String byte-equal, Time parses as RFC3339, Duration is any field; the header decodes to one name per column fitting the column in the same sense (a repeated header name is counted, not judged: records are positional); and encoding/csv must accept the whole output and read the same records, modulo its two documented liberties (skips empty lines, CRLF->LF inside quotes). "+
			"sql_inproc / sql_cli: generated JSON-lines tables p, q (1-4 columns drawn from {id, name, age, a, b, city} plus a key k, 1-4 rows; numbers, strings incl. quotes/commas/empty, booleans, NULLs) and one of: a select list over p with aliases drawn from the column names themselves (`SELECT p.id, p.age AS id`); a key join p JOIN q selecting equally named columns of both / SELECT *; a select list holding a subquery expression `(SELECT q.c1 [AS x], q.c2, ... | * FROM q [WHERE q.k = p.k]) AS sub` with 1-4 columns in drawn (mostly non-alphabetical) order. The expected rows are computed by the harness from the tables (projection, key join, key-correlated subquery: a list of plain values for one column, else a list of objects whose members are the subquery's columns). "+
			"Run in process (eng: parser, typechecker, optimiser, execution; the records through the formatter with the schema cmd/root.go builds) and through the real binary (-o json; -o csv for the shapes without a list), judged by the same oracle: lines = expected rows as a bag; per line the member rule above (SELECT *: members paired with columns by name); objects: every key names exactly one expected member (equal, else the unique member it is a dotted suffix of), no key twice, values equal; lists as bags. "+
			"non-trivial: a printed string or name needs JSON escaping / CSV quoting, or a value is nested, or a number is extreme (|int| > 2^53, float printed with an exponent or >= 17 digits). distinct = canonical case JSON",
		"NaN, +-Inf and strings that are not valid UTF-8 have no JSON encoding: excluded by construction",
		"duplicate field names inside one object type are excluded by construction (a JSON object with a repeated key has no interoperable reading); duplicate column names cannot reach a formatter (the planner renames them x, x_1)",
		"how a column is named in the output is not fixed by the statement: the column's full name or any dotted suffix of it is accepted, but two columns of one line must not get the same name in -o json",
		"sql slice: the order of result rows, of the records of a subquery and of the columns of SELECT * is not this property's subject (bags / pairing by name)",
		"CSV cannot tell the empty string from NULL (both are the empty field the statement prescribes for NULL); a one-column row holding NULL or '' is an empty line, which RFC 4180's grammar reads as a record of one empty field and which encoding/csv skips: accepted (counted as observed_single_empty_field_record_is_an_empty_line), since the statement names no reader",
		"Time and Duration are not listed in the statement: Time must only parse (sub-second loss is counted, not asserted), Duration must only be a string/field",
		"non-scalar columns with -o csv panic; that is C07's subject, the CSV domain here is scalar",
	)
	ev.Enumerate(t, rec, "json_string_atoms", jsonAtomCases, c25JSONProp)
	ev.Enumerate(t, rec, "csv_string_atoms", csvAtomCases, c25CSVProp)
	ev.Enumerate(t, rec, "number_atoms_json", numberAtomCases, c25JSONProp)
	ev.Enumerate(t, rec, "number_atoms_csv", numberAtomCases, c25CSVProp)
	ev.Check(t, rec, "json_random", ev.N(160000, 3000000), genJSONCase, c25JSONProp)
	ev.Check(t, rec, "csv_random", ev.N(120000, 2000000), genCSVCase, c25CSVProp)
	cli.CapSeconds = 120 // the machine may be heavily loaded; termination itself is C29's subject
	ev.Check(t, rec, "sql_inproc", ev.N(1200, 80000), genSQLCase, sqlInProcProp)
	ev.Check(t, rec, "sql_cli", ev.N(96, 6400), genSQLCase, sqlCLIProp)
}
