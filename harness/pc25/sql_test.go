package pc25

import (
	"bytes"
	"encoding/json"
	"fmt"
	"io"
	"os"
	"path/filepath"
	"sort"
	"strconv"
	"strings"
	"sync/atomic"

	"github.com/cube2222/octosql/octosql"
	"github.com/cube2222/octosql/outputs/formats"
	"github.com/cube2222/octosql/physical"
	"pgregory.net/rapid"

	"verifharness/cli"
	"verifharness/eng"
	"verifharness/ev"
	"verifharness/gen"
)

// SQL slice of C25: results whose *shape* comes out of the planner, not out of the harness - objects built by
// multi-column subquery expressions (the member names come from the subquery's select list, the values from its records),
// select lists whose aliases repeat the name of a source column, joins of tables with the same column names, SELECT *.
// The same generated case is judged twice: in process (parser, typechecker, optimiser, execution, then the formatter fed
// exactly as cmd/root.go + outputs/eager feed it) and through the real binary (-o json / -o csv).
//
// The harness knows the tables, so it knows every row's values without asking octosql: the expected result is computed
// here from the generated data (projection, key-equality join, key-equality correlated subquery).

type sqlTable struct {
	Cols []string   `json:"cols"`
	Rows [][]gen.JV `json:"rows"`
}

// selItem is `<alias>.<col> [AS <as>]`; Tab 0 = table p, 1 = table q.
type selItem struct {
	Tab int    `json:"tab"`
	Col string `json:"col"`
	As  string `json:"as,omitempty"`
}

type sqlCase struct {
	Shape  string     `json:"shape"`  // plain | join | subquery
	Tables []sqlTable `json:"tables"` // p [, q]; every table has the column k (distinct non-null numbers)
	Star   bool       `json:"star,omitempty"`
	Items  []selItem  `json:"items,omitempty"`
	// subquery shape: `(SELECT <Sub | *> FROM q [WHERE q.k = p.k]) AS <SubAs>` is item number SubAt of the select list
	Sub        []selItem `json:"sub,omitempty"`
	SubStar    bool      `json:"sub_star,omitempty"`
	SubAt      int       `json:"sub_at,omitempty"`
	SubAs      string    `json:"sub_as,omitempty"`
	Correlated bool      `json:"correlated,omitempty"`
	Format     string    `json:"format"` // json | csv
}

var tableAlias = []string{"p", "q"}

func (it selItem) sql() string {
	s := tableAlias[it.Tab] + "." + it.Col
	if it.As != "" {
		s += " AS " + it.As
	}
	return s
}

// name: the full name of the output column / object member.
func (it selItem) name() string {
	if it.As != "" {
		return it.As
	}
	return tableAlias[it.Tab] + "." + it.Col
}

func itemsSQL(items []selItem) string {
	parts := make([]string, len(items))
	for i, it := range items {
		parts[i] = it.sql()
	}
	return strings.Join(parts, ", ")
}

// SQL renders the query; file(i) is how table i is written in FROM.
func (c sqlCase) SQL(file func(i int) string) string {
	from := func(i int) string { return "`" + file(i) + "` " + tableAlias[i] }
	list := "*"
	if !c.Star {
		list = itemsSQL(c.Items)
	}
	switch c.Shape {
	case "plain":
		return "SELECT " + list + " FROM " + from(0)
	case "join":
		return "SELECT " + list + " FROM " + from(0) + " JOIN " + from(1) + " ON p.k = q.k"
	}
	sub := "*"
	if !c.SubStar {
		sub = itemsSQL(c.Sub)
	}
	sub = "(SELECT " + sub + " FROM " + from(1)
	if c.Correlated {
		sub += " WHERE q.k = p.k"
	}
	sub += ") AS " + c.SubAs
	parts := make([]string, 0, len(c.Items)+1)
	for i, it := range c.Items {
		if i == c.SubAt {
			parts = append(parts, sub)
		}
		parts = append(parts, it.sql())
	}
	if c.SubAt >= len(c.Items) {
		parts = append(parts, sub)
	}
	return "SELECT " + strings.Join(parts, ", ") + " FROM " + from(0)
}

func jsonScalar(v gen.JV) string {
	switch v.K {
	case "null":
		return "null"
	case "bool":
		return strconv.FormatBool(v.B)
	case "float":
		return strconv.FormatFloat(v.Float(), 'g', -1, 64)
	case "str":
		b, _ := json.Marshal(v.S)
		return string(b)
	}
	panic("jsonScalar: " + v.K)
}

// fileContent: the table as JSON lines (numbers become Float columns, so expected numbers are floats).
func (t sqlTable) fileContent() string {
	var sb strings.Builder
	for _, row := range t.Rows {
		sb.WriteByte('{')
		for j, col := range t.Cols {
			if j > 0 {
				sb.WriteByte(',')
			}
			sb.WriteString(strconv.Quote(col) + ":" + jsonScalar(row[j]))
		}
		sb.WriteString("}\n")
	}
	return sb.String()
}

func (t sqlTable) col(name string) int {
	for j, c := range t.Cols {
		if c == name {
			return j
		}
	}
	return -1
}

// ---- expected results ---------------------------------------------------------------------------------------------

// xval: an expected value. kind 's' scalar (v), 'l' list (elems; compared as a bag: in which order a subquery's records
// arrive is not this property's subject), 'o' object (names, elems).
type xval struct {
	kind  byte
	v     gen.JV
	names []string
	elems []xval
}

func (x xval) String() string {
	switch x.kind {
	case 's':
		return x.v.Oct().String()
	case 'l':
		parts := make([]string, len(x.elems))
		for i := range parts {
			parts[i] = x.elems[i].String()
		}
		return "[" + strings.Join(parts, ", ") + "]"
	}
	parts := make([]string, len(x.elems))
	for i := range parts {
		parts[i] = strconv.Quote(x.names[i]) + ": " + x.elems[i].String()
	}
	return "{" + strings.Join(parts, ", ") + "}"
}

type expected struct {
	names []string // full names of the output columns (select-list order; for SELECT *: in no particular order)
	star  bool
	rows  [][]xval
}

func (c sqlCase) valid() bool {
	want := 1
	if c.Shape == "join" || c.Shape == "subquery" {
		want = 2
	} else if c.Shape != "plain" {
		return false
	}
	if len(c.Tables) != want || (c.Format != "json" && c.Format != "csv") || (c.Format == "csv" && c.Shape == "subquery") {
		return false
	}
	for _, t := range c.Tables {
		if len(t.Rows) == 0 || t.col("k") < 0 {
			return false
		}
		seenCol := map[string]bool{}
		for _, col := range t.Cols {
			if seenCol[col] || !plainIdent(col) {
				return false
			}
			seenCol[col] = true
		}
		seenKey := map[string]bool{}
		for _, row := range t.Rows {
			if len(row) != len(t.Cols) {
				return false
			}
			for _, v := range row {
				if !scalarKind(v.K) || v.K == "int" || v.K == "time" || v.K == "dur" || !validValue(v) || (v.K == "str" && strings.ContainsAny(v.S, "\r\n")) {
					return false
				}
			}
			k := row[t.col("k")]
			if k.K != "float" || seenKey[k.F] {
				return false
			}
			seenKey[k.F] = true
		}
	}
	okItems := func(items []selItem, tabs int, extra string) bool {
		seen := map[string]bool{}
		if extra != "" {
			seen[extra] = true
		}
		for _, it := range items {
			if it.Tab < 0 || it.Tab >= tabs || c.Tables[it.Tab].col(it.Col) < 0 || (it.As != "" && !plainIdent(it.As)) || seen[it.name()] {
				return false
			}
			seen[it.name()] = true
		}
		return true
	}
	switch c.Shape {
	case "plain":
		return c.Star || (len(c.Items) > 0 && okItems(c.Items, 1, ""))
	case "join":
		return c.Star || (len(c.Items) > 0 && okItems(c.Items, 2, ""))
	}
	if c.Star || !plainIdent(c.SubAs) || c.SubAt < 0 || !okItems(c.Items, 1, c.SubAs) {
		return false
	}
	if c.SubStar {
		return true
	}
	if len(c.Sub) == 0 {
		return false
	}
	for _, it := range c.Sub {
		if it.Tab != 1 {
			return false
		}
	}
	return okItems(c.Sub, 2, "")
}

func plainIdent(s string) bool {
	if s == "" {
		return false
	}
	for _, r := range s {
		if !(r >= 'a' && r <= 'z' || r == '_' || r >= '0' && r <= '9') {
			return false
		}
	}
	return s[0] >= 'a' && s[0] <= 'z'
}

func (c sqlCase) expect() expected {
	scalar := func(v gen.JV) xval { return xval{kind: 's', v: v} }
	p := c.Tables[0]
	project := func(items []selItem, pr, qr []gen.JV) []xval {
		out := make([]xval, len(items))
		for i, it := range items {
			row := pr
			if it.Tab == 1 {
				row = qr
			}
			out[i] = scalar(row[c.Tables[it.Tab].col(it.Col)])
		}
		return out
	}
	allItems := func(tabs int) []selItem {
		var items []selItem
		for tab := 0; tab < tabs; tab++ {
			for _, col := range c.Tables[tab].Cols {
				items = append(items, selItem{Tab: tab, Col: col})
			}
		}
		return items
	}
	names := func(items []selItem) []string {
		out := make([]string, len(items))
		for i, it := range items {
			out[i] = it.name()
		}
		return out
	}
	var e expected
	switch c.Shape {
	case "plain":
		items := c.Items
		if c.Star {
			items, e.star = allItems(1), true
		}
		e.names = names(items)
		for _, pr := range p.Rows {
			e.rows = append(e.rows, project(items, pr, nil))
		}
	case "join":
		q := c.Tables[1]
		items := c.Items
		if c.Star {
			items, e.star = allItems(2), true
		}
		e.names = names(items)
		for _, pr := range p.Rows {
			for _, qr := range q.Rows {
				if pr[p.col("k")].F == qr[q.col("k")].F {
					e.rows = append(e.rows, project(items, pr, qr))
				}
			}
		}
	case "subquery":
		q := c.Tables[1]
		sub := c.Sub
		if c.SubStar {
			sub = nil
			for _, col := range q.Cols {
				sub = append(sub, selItem{Tab: 1, Col: col})
			}
		}
		at := c.SubAt
		if at > len(c.Items) {
			at = len(c.Items)
		}
		itemNames := names(c.Items)
		e.names = append(append(append([]string{}, itemNames[:at]...), c.SubAs), itemNames[at:]...)
		for _, pr := range p.Rows {
			list := xval{kind: 'l'}
			for _, qr := range q.Rows {
				if c.Correlated && pr[p.col("k")].F != qr[q.col("k")].F {
					continue
				}
				vals := project(sub, pr, qr)
				if len(sub) == 1 {
					list.elems = append(list.elems, vals[0]) // a one-column subquery gives a list of plain values
				} else {
					list.elems = append(list.elems, xval{kind: 'o', names: names(sub), elems: vals})
				}
			}
			vals := project(c.Items, pr, nil)
			e.rows = append(e.rows, append(append(append([]xval{}, vals[:at]...), list), vals[at:]...))
		}
	}
	return e
}

// ---- judging the printed output -----------------------------------------------------------------------------------------

// assignMembers pairs the members of a printed object with the expected members by name, in no particular order: a key
// that equals an expected name belongs to it; otherwise it must fit (be the name without leading qualifier segments)
// exactly one expected name. Every expected member must be hit exactly once. Returns at[j] = index of the key for member j.
func assignMembers(names, keys []string) ([]int, error) {
	if len(keys) != len(names) {
		return nil, fmt.Errorf("members %q were written with the %d keys %q", names, len(keys), keys)
	}
	at := make([]int, len(names))
	for j := range at {
		at[j] = -1
	}
	seen := map[string]bool{}
	for i, k := range keys {
		if seen[k] {
			return nil, fmt.Errorf("key %q occurs twice in %q (a decoder keeps only one of the two values)", k, keys)
		}
		seen[k] = true
		var cand []int
		for j, n := range names {
			if n == k {
				cand = []int{j}
				break
			}
			if nameFits(k, n) {
				cand = append(cand, j)
			}
		}
		if len(cand) != 1 {
			return nil, fmt.Errorf("key %q (of %q) names %d of the members %q", k, keys, len(cand), names)
		}
		if at[cand[0]] >= 0 {
			return nil, fmt.Errorf("keys %q and %q both name member %q", keys[at[cand[0]]], k, names[cand[0]])
		}
		at[cand[0]] = i
	}
	return at, nil
}

func matchX(path string, x xval, n *jnode, obs *feat) error {
	switch x.kind {
	case 's':
		return matchJSON(path, gen.JT{K: x.v.K}, x.v, n, obs)
	case 'l':
		if n.kind != 'a' {
			return fmt.Errorf("%s: list %s was written as a JSON %s", path, x, kindName[n.kind])
		}
		if len(n.arr) != len(x.elems) {
			return fmt.Errorf("%s: list %s with %d elements was written as an array of %d", path, x, len(x.elems), len(n.arr))
		}
		used := make([]bool, len(n.arr))
		for i, e := range x.elems {
			var first error
			found := false
			for j := range n.arr {
				if used[j] {
					continue
				}
				err := matchX(fmt.Sprintf("%s[%d]", path, j), e, n.arr[j], obs)
				if err == nil {
					used[j], found = true, true
					break
				}
				if first == nil {
					first = err
				}
			}
			if !found {
				return fmt.Errorf("%s: element %d %s of the list is none of the (remaining) printed elements: %v", path, i, e, first)
			}
		}
		return nil
	}
	if n.kind != 'o' {
		return fmt.Errorf("%s: object %s was written as a JSON %s", path, x, kindName[n.kind])
	}
	at, err := assignMembers(x.names, n.keys)
	if err != nil {
		return fmt.Errorf("%s: object %s: %v", path, x, err)
	}
	for j := range x.names {
		if err := matchX(path+"->"+strconv.Quote(n.keys[at[j]]), x.elems[j], n.arr[at[j]], obs); err != nil {
			return err
		}
	}
	return nil
}

func rowX(row []xval) string {
	parts := make([]string, len(row))
	for i := range row {
		parts[i] = row[i].String()
	}
	return "(" + strings.Join(parts, ", ") + ")"
}

// judgeJSON: every line is one object with one member per output column - in select-list order, member i fitting column
// i's name, no name twice (SELECT *: members paired by name, the order of a star's columns is the datasource's business) -
// and the lines are, as a bag, the expected rows.
func judgeJSON(e expected, stdout string, obs *feat) error {
	text := strings.TrimSuffix(stdout, "\n")
	var lines []string
	if text != "" {
		lines = strings.Split(text, "\n")
	}
	if len(lines) != len(e.rows) {
		return fmt.Errorf("%d lines printed for %d result rows", len(lines), len(e.rows))
	}
	printed := make([][]*jnode, len(lines))
	for i, line := range lines {
		n, err := parseJSONLine([]byte(line))
		if err != nil {
			return fmt.Errorf("line %d %q: %v", i, line, err)
		}
		if n.kind != 'o' {
			return fmt.Errorf("line %d %q is a JSON %s, want object", i, line, kindName[n.kind])
		}
		at := make([]int, len(e.names))
		if e.star {
			if at, err = assignMembers(e.names, n.keys); err != nil {
				return fmt.Errorf("line %d %q: %v", i, line, err)
			}
		} else {
			if err := matchMemberNames(e.names, n.keys, obs, false); err != nil {
				return fmt.Errorf("line %d %q: %v", i, line, err)
			}
			for j := range at {
				at[j] = j
			}
		}
		printed[i] = make([]*jnode, len(at))
		for j := range at {
			printed[i][j] = n.arr[at[j]]
		}
	}
	used := make([]bool, len(lines))
	for _, row := range e.rows {
		var first error
		found := false
		for i := range printed {
			if used[i] {
				continue
			}
			var err error
			for j := range row {
				if err = matchX(fmt.Sprintf("line %d column %q", i, e.names[j]), row[j], printed[i][j], obs); err != nil {
					break
				}
			}
			if err == nil {
				used[i], found = true, true
				break
			}
			if first == nil {
				first = err
			}
		}
		if !found {
			return fmt.Errorf("result row %s of columns %q is none of the (remaining) printed lines: %v", rowX(row), e.names, first)
		}
	}
	return nil
}

// judgeCSV: a header naming the columns in order and one record per row, as a bag, cells decoding to the row's scalars.
func judgeCSV(e expected, stdout string, obs *feat) error {
	recs, err := parseCSVStrict([]byte(stdout))
	if err != nil {
		return fmt.Errorf("not RFC 4180: %v", err)
	}
	if len(recs) != len(e.rows)+1 {
		return fmt.Errorf("%d records printed, want a header and %d result rows", len(recs), len(e.rows))
	}
	at := make([]int, len(e.names))
	if e.star {
		// a repeated header name could not be paired with a column
		if at, err = assignMembers(e.names, recs[0]); err != nil {
			return fmt.Errorf("header %q: %v", recs[0], err)
		}
	} else {
		if err := matchMemberNames(e.names, recs[0], obs, true); err != nil {
			return fmt.Errorf("header %q: %v", recs[0], err)
		}
		for j := range at {
			at[j] = j
		}
	}
	used := make([]bool, len(recs))
	for _, row := range e.rows {
		var first error
		found := false
		for i := 1; i < len(recs); i++ {
			if used[i] || len(recs[i]) != len(row) {
				continue
			}
			var err error
			for j := range row {
				if err = matchCSVCell(row[j].v, recs[i][at[j]], obs); err != nil {
					err = fmt.Errorf("record %d column %q: %v", i, e.names[j], err)
					break
				}
			}
			if err == nil {
				used[i], found = true, true
				break
			}
			if first == nil {
				first = err
			}
		}
		if !found {
			return fmt.Errorf("result row %s of columns %q is none of the (remaining) printed records: %v", rowX(row), e.names, first)
		}
	}
	return nil
}

// ---- running ---------------------------------------------------------------------------------------------------------------

var sqlFileSeq int64

// runInProcess: parser, typechecker, optimiser and execution through eng, the result records through the formatter the way
// cmd/root.go (schema with the user-visible names) and outputs/eager (SetSchema, Write per record) do it.
func runInProcess(c sqlCase) (string, error) {
	paths := make([]string, len(c.Tables))
	for i, t := range c.Tables {
		paths[i] = filepath.Join(ev.ScratchDir(), fmt.Sprintf("c25_%d_%d_%s.json", os.Getpid(), atomic.AddInt64(&sqlFileSeq, 1), tableAlias[i]))
		if err := os.WriteFile(paths[i], []byte(t.fileContent()), 0o644); err != nil {
			panic(err)
		}
		defer os.Remove(paths[i])
	}
	ctx := eng.Context()
	plan, cerr := eng.Compile(ctx, c.SQL(func(i int) string { return paths[i] }), eng.Env(nil), eng.Options{Optimize: true})
	if cerr != nil {
		return "", cerr
	}
	outs, err := plan.Run(ctx)
	if err != nil {
		return "", err
	}
	var buf bytes.Buffer
	var f interface {
		SetSchema(physical.Schema)
		Write([]octosql.Value) error
		Close() error
	}
	if c.Format == "csv" {
		f = formats.NewCSVFormatter(io.Writer(&buf))
	} else {
		f = formats.NewJSONFormatter(io.Writer(&buf))
	}
	f.SetSchema(physical.Schema{Fields: plan.OutFields, TimeField: -1})
	for _, row := range eng.Rows(outs) {
		if err := f.Write(row); err != nil {
			return "", err
		}
	}
	if err := f.Close(); err != nil {
		return "", err
	}
	return buf.String(), nil
}

func (c sqlCase) inv() cli.Inv {
	files := map[string]string{}
	for i, t := range c.Tables {
		files["t"+tableAlias[i]+".json"] = t.fileContent()
	}
	return cli.Inv{Files: files, Args: []string{c.SQL(func(i int) string { return "t" + tableAlias[i] + ".json" }), "-o", c.Format}}
}

func (c sqlCase) describe() string {
	var sb strings.Builder
	sb.WriteString(c.SQL(func(i int) string { return "t" + tableAlias[i] + ".json" }) + "  -o " + c.Format)
	for i, t := range c.Tables {
		sb.WriteString(fmt.Sprintf("\n  t%s.json: %q", tableAlias[i], t.fileContent()))
	}
	return sb.String()
}

func (c sqlCase) judge(stdout string, obs *feat) error {
	if c.Format == "csv" {
		return judgeCSV(c.expect(), stdout, obs)
	}
	return judgeJSON(c.expect(), stdout, obs)
}

func (c sqlCase) classes(via string, f *feat) {
	f.add("sql:" + via + ":" + c.Shape + ":-o_" + c.Format)
	if c.Star {
		f.add("sql:select_star")
	}
	bareNames := map[string]bool{}
	colsOf := map[string]int{}
	for _, it := range c.Items {
		if it.As != "" {
			bareNames[it.As] = true
		} else {
			colsOf[it.Col]++
		}
	}
	if c.Shape == "subquery" {
		bareNames[c.SubAs] = true
	}
	for _, it := range c.Items {
		if it.As == "" && bareNames[it.Col] {
			f.add("sql:alias_repeats_the_name_of_a_selected_source_column")
		}
		if it.As == "" && colsOf[it.Col] > 1 {
			f.add("sql:join_selects_the_same_column_name_from_both_tables")
		}
	}
	if c.Shape == "join" && c.Star {
		for _, col := range c.Tables[0].Cols {
			if c.Tables[1].col(col) >= 0 && col != "k" {
				f.add("sql:join_star_over_tables_sharing_a_column_name")
			}
		}
	}
	if c.Shape == "subquery" {
		n := len(c.Sub)
		if c.SubStar {
			n = len(c.Tables[1].Cols)
			f.add("sql:subquery_select_star")
		}
		switch {
		case n == 1:
			f.add("sql:subquery_one_column_(plain_list)")
		default:
			f.add(fmt.Sprintf("sql:subquery_%d_columns_(list_of_objects)", n))
		}
		if !c.SubStar && n > 1 {
			names := make([]string, n)
			for i, it := range c.Sub {
				names[i] = it.name()
			}
			if !sort.StringsAreSorted(names) {
				f.add("sql:subquery_columns_not_in_name_order")
			}
			for _, it := range c.Sub {
				if it.As != "" {
					f.add("sql:subquery_column_with_alias")
					break
				}
			}
		}
		if c.Correlated {
			f.add("sql:subquery_correlated")
		} else {
			f.add("sql:subquery_uncorrelated")
		}
	}
}

func (c sqlCase) nonTrivial(f *feat) bool {
	return f.set["sql:alias_repeats_the_name_of_a_selected_source_column"] || f.set["sql:join_selects_the_same_column_name_from_both_tables"] ||
		f.set["sql:join_star_over_tables_sharing_a_column_name"] || (c.Shape == "subquery" && (c.SubStar || len(c.Sub) > 1))
}

func sqlInProcProp(c sqlCase) ev.Outcome {
	if !c.valid() {
		return ev.Outcome{Discard: true}
	}
	var f feat
	c.classes("inproc", &f)
	out, err := runInProcess(c)
	if err != nil {
		return ev.Fail("in-process run of %s failed: %v", c.describe(), err)
	}
	if err := c.judge(out, &f); err != nil {
		return ev.Fail("%s\n  formatter output %q: %v", c.describe(), out, err)
	}
	return ev.Outcome{NonTrivial: c.nonTrivial(&f), Classes: f.list()}
}

func sqlCLIProp(c sqlCase) ev.Outcome {
	if !c.valid() {
		return ev.Outcome{Discard: true}
	}
	var f feat
	c.classes("cli", &f)
	inv := c.inv()
	res, died := cli.Fast(inv)
	if !died && res.Exit == 0 && !res.TimedOut && c.judge(res.Stdout, &f) == nil {
		return ev.Outcome{NonTrivial: c.nonTrivial(&f), Classes: f.list()}
	}
	// anything that looks wrong in the serving process is observed again with an ordinary one-shot process, which is judged
	res = cli.Run(inv)
	if res.TimedOut {
		return ev.Outcome{Discard: true} // a loaded machine; termination is C29's subject
	}
	if res.Exit != 0 {
		return ev.Fail("%s: %s", c.describe(), res.Brief())
	}
	if err := c.judge(res.Stdout, &f); err != nil {
		return ev.Fail("%s\n  printed %q: %v", c.describe(), res.Stdout, err)
	}
	return ev.Outcome{NonTrivial: c.nonTrivial(&f), Classes: f.list()}
}

// ---- generator ---------------------------------------------------------------------------------------------------------

// the columns every table draws from (so two tables of a case share names), and what they hold
var sqlColumnKinds = map[string]string{"id": "num", "name": "str", "age": "num", "a": "str?", "b": "bool", "city": "str"}
var sqlColumnPool = []string{"id", "name", "age", "a", "b", "city"}

// aliases: mostly names of source columns (the collision of interest), sometimes fresh ones
var sqlAliasPool = []string{"id", "name", "age", "a", "b", "city", "k", "x", "n"}
var sqlStrings = []string{"ann", "bob", "", "x y", "a\"b", "a,b", "é", "null", "1", " lead", "\\", "q.name"}

func genSQLTable(t *rapid.T, label string) sqlTable {
	ncols := rapid.IntRange(1, 4).Draw(t, label+"ncols")
	cols := append([]string{}, rapid.Permutation(sqlColumnPool).Draw(t, label+"cols")[:ncols]...)
	kAt := rapid.IntRange(0, ncols).Draw(t, label+"kat")
	cols = append(cols[:kAt], append([]string{"k"}, cols[kAt:]...)...)
	nrows := rapid.IntRange(1, 4).Draw(t, label+"nrows")
	keys := rapid.Permutation([]int{1, 2, 3, 4, 5}).Draw(t, label+"keys")
	tab := sqlTable{Cols: cols}
	for r := 0; r < nrows; r++ {
		row := make([]gen.JV, len(cols))
		for j, col := range cols {
			l := fmt.Sprintf("%sv%d_%d", label, r, j)
			switch sqlColumnKinds[col] {
			case "num":
				if rapid.IntRange(0, 3).Draw(t, l+"frac") == 0 {
					row[j] = gen.FromFloat(float64(rapid.IntRange(-40, 40).Draw(t, l)) / 8)
				} else {
					row[j] = gen.FromFloat(float64(rapid.IntRange(0, 99).Draw(t, l)))
				}
			case "str":
				row[j] = gen.Str(rapid.SampledFrom(sqlStrings).Draw(t, l))
			case "str?":
				if rapid.IntRange(0, 2).Draw(t, l+"null") == 0 {
					row[j] = gen.Null()
				} else {
					row[j] = gen.Str(rapid.SampledFrom(sqlStrings).Draw(t, l))
				}
			case "bool":
				row[j] = gen.Bool(rapid.Bool().Draw(t, l))
			default: // k
				row[j] = gen.FromFloat(float64(keys[r]))
			}
		}
		tab.Rows = append(tab.Rows, row)
	}
	return tab
}

// genItems draws 1..max distinct output columns over the first `tabs` tables (items of the one table `only` if >= 0).
func genItems(t *rapid.T, c *sqlCase, tabs int, only int, max int, taken map[string]bool, label string) []selItem {
	n := rapid.IntRange(1, max).Draw(t, label+"n")
	var items []selItem
	for i := 0; i < n; i++ {
		l := label + strconv.Itoa(i)
		tab := only
		if only < 0 {
			tab = rapid.IntRange(0, tabs-1).Draw(t, l+"tab")
		}
		it := selItem{Tab: tab, Col: rapid.SampledFrom(c.Tables[tab].Cols).Draw(t, l+"col")}
		if rapid.IntRange(0, 9).Draw(t, l+"aliased") < 4 {
			it.As = rapid.SampledFrom(sqlAliasPool).Draw(t, l+"as")
			if len(items) > 0 && rapid.Bool().Draw(t, l+"collide") {
				// the name of a column selected before: `SELECT p.id, p.age AS id`
				it.As = rapid.SampledFrom(items).Draw(t, l+"like").Col
			}
		}
		if taken[it.name()] {
			continue
		}
		taken[it.name()] = true
		items = append(items, it)
	}
	return items
}

func genSQLCase(t *rapid.T) sqlCase {
	c := sqlCase{Shape: rapid.SampledFrom([]string{"subquery", "subquery", "plain", "join", "join"}).Draw(t, "shape"), Format: "json"}
	c.Tables = append(c.Tables, genSQLTable(t, "p"))
	if c.Shape != "plain" {
		c.Tables = append(c.Tables, genSQLTable(t, "q"))
	}
	if c.Shape != "subquery" && rapid.IntRange(0, 3).Draw(t, "csv") == 0 {
		c.Format = "csv"
	}
	taken := map[string]bool{}
	switch c.Shape {
	case "plain":
		if c.Star = rapid.IntRange(0, 4).Draw(t, "star") == 0; !c.Star {
			c.Items = genItems(t, &c, 1, -1, 5, taken, "item")
		}
	case "join":
		if c.Star = rapid.IntRange(0, 3).Draw(t, "star") == 0; !c.Star {
			c.Items = genItems(t, &c, 2, -1, 4, taken, "item")
			if rapid.Bool().Draw(t, "clash") {
				// the same column of the other table as well: `SELECT p.name, q.name`
				it := rapid.SampledFrom(c.Items).Draw(t, "clash_with")
				other := selItem{Tab: 1 - it.Tab, Col: it.Col}
				if c.Tables[other.Tab].col(other.Col) >= 0 && !taken[other.name()] {
					taken[other.name()] = true
					at := rapid.IntRange(0, len(c.Items)).Draw(t, "clash_at")
					c.Items = append(c.Items[:at], append([]selItem{other}, c.Items[at:]...)...)
				}
			}
		}
	default:
		c.SubAs = rapid.SampledFrom([]string{"sub", "sub", "name", "a", "id", "s"}).Draw(t, "subas")
		taken[c.SubAs] = true
		if rapid.IntRange(0, 4).Draw(t, "noitems") > 0 {
			c.Items = genItems(t, &c, 1, 0, 3, taken, "item")
		}
		c.SubAt = rapid.IntRange(0, len(c.Items)).Draw(t, "subat")
		c.Correlated = rapid.IntRange(0, 3).Draw(t, "correlated") > 0
		if c.SubStar = rapid.IntRange(0, 5).Draw(t, "substar") == 0; !c.SubStar {
			c.Sub = genItems(t, &c, 2, 1, 4, map[string]bool{}, "sub")
		}
	}
	return c
}
