package eng

import (
	"fmt"

	"github.com/cube2222/octosql/execution"
	"github.com/cube2222/octosql/logical"
	"github.com/cube2222/octosql/octosql"
	"github.com/cube2222/octosql/physical"
)

// Nullable returns NULL | t (t itself for NULL).
func Nullable(t octosql.Type) octosql.Type {
	if t.TypeID == octosql.TypeIDNull {
		return t
	}
	u := octosql.Type{TypeID: octosql.TypeIDUnion}
	u.Union.Alternatives = []octosql.Type{octosql.Null, t}
	return u
}

// EvalFunction typechecks fn(x0..xn) with xi of the given static types through the real logical typechecker (overload
// resolution, type assertions), materialises it with the real physical.Materialize (so the NULL checks of strict functions
// are the real ones) and evaluates it on the given run-time values. It returns the value, the static result type and an
// error (typecheck errors are prefixed "typecheck: ").
func EvalFunction(fn string, staticTypes []octosql.Type, values []octosql.Value) (octosql.Value, octosql.Type, error) {
	env := Env(nil)
	fields := make([]physical.SchemaField, len(staticTypes))
	mapping := map[string]string{}
	args := make([]logical.Expression, len(staticTypes))
	for i, t := range staticTypes {
		name := fmt.Sprintf("x%d", i)
		fields[i] = physical.SchemaField{Name: name + "_u", Type: t}
		mapping[name] = name + "_u"
		args[i] = logical.NewVariable(name)
	}
	return EvalLogical(logical.NewFunctionExpression(fn, args), fields, mapping, values, env)
}

// EvalLogical typechecks an arbitrary logical expression over a record schema and evaluates it on one record.
func EvalLogical(expr logical.Expression, fields []physical.SchemaField, mapping map[string]string, values []octosql.Value, env physical.Environment) (v octosql.Value, t octosql.Type, err error) {
	penv := env.WithRecordSchema(physical.Schema{Fields: fields, TimeField: -1})
	var pe physical.Expression
	func() {
		defer func() {
			if r := recover(); r != nil {
				err = fmt.Errorf("typecheck: %v", r)
			}
		}()
		pe = expr.Typecheck(Context(), penv, logical.Environment{
			UniqueVariableNames: &logical.VariableMapping{Mapping: mapping}, UniqueNameGenerator: map[string]int{},
		})
	}()
	if err != nil {
		return octosql.Value{}, octosql.Type{}, err
	}
	ee, err := pe.Materialize(Context(), penv)
	if err != nil {
		return octosql.Value{}, pe.Type, err
	}
	v, err = ee.Evaluate(execution.ExecutionContext{Context: Context(), VariableContext: (*execution.VariableContext)(nil).WithRecord(execution.Record{Values: values})})
	return v, pe.Type, err
}
