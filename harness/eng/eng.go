// Package eng runs the real octosql pipeline (sqlparser.Parse -> parser.ParseNode -> Typecheck ->
// [Optimize] -> Materialize -> Run) in-process over in-memory scripted tables (database "mem") and
// over the real file datasources. It mirrors what cmd/root.go does for the eager outputs
// (csv/json/stream_native); the CLI engine checks root.go itself.
package eng

import (
	"context"
	"fmt"
	"strings"
	"sync"

	"github.com/cube2222/octosql/aggregates"
	"github.com/cube2222/octosql/config"
	"github.com/cube2222/octosql/datasources/csv"
	"github.com/cube2222/octosql/datasources/json"
	"github.com/cube2222/octosql/datasources/lines"
	"github.com/cube2222/octosql/datasources/parquet"
	"github.com/cube2222/octosql/execution"
	"github.com/cube2222/octosql/execution/nodes"
	"github.com/cube2222/octosql/functions"
	"github.com/cube2222/octosql/logical"
	"github.com/cube2222/octosql/octosql"
	"github.com/cube2222/octosql/optimizer"
	"github.com/cube2222/octosql/parser"
	"github.com/cube2222/octosql/parser/sqlparser"
	"github.com/cube2222/octosql/physical"
	"github.com/cube2222/octosql/table_valued_functions"

	"verifharness/gen"
	"verifharness/mon"
)

// Table is an in-memory scripted table.
type Table struct {
	Cols          []string  `json:"cols"`
	Types         []gen.JT  `json:"types"`
	TimeField     int       `json:"time_field"` // -1 = none
	NoRetractions bool      `json:"no_retractions"`
	Msgs          []mon.Msg `json:"msgs"`
}

// RowsTable builds an insert-only table from rows.
func RowsTable(cols []string, types []gen.JT, rows [][]gen.JV) *Table {
	t := &Table{Cols: cols, Types: types, TimeField: -1, NoRetractions: true}
	for _, r := range rows {
		t.Msgs = append(t.Msgs, mon.Msg{Kind: "rec", Vals: r})
	}
	return t
}

type memImpl struct{ t *Table }

func (m *memImpl) Materialize(ctx context.Context, env physical.Environment, schema physical.Schema, pushedDownPredicates []physical.Expression) (execution.Node, error) {
	idx := make([]int, len(schema.Fields))
	for i, f := range schema.Fields {
		idx[i] = -1
		for j, c := range m.t.Cols {
			if c == f.Name {
				idx[i] = j
			}
		}
		if idx[i] == -1 {
			return nil, fmt.Errorf("mem table: unknown column %q requested", f.Name)
		}
	}
	return &projecting{msgs: m.t.Msgs, idx: idx}, nil
}

func (m *memImpl) PushDownPredicates(newPredicates, pushedDownPredicates []physical.Expression) (rejected, pushedDown []physical.Expression, changed bool) {
	return newPredicates, []physical.Expression{}, false
}

type projecting struct {
	msgs []mon.Msg
	idx  []int
}

func (p *projecting) Run(ctx execution.ExecutionContext, produce execution.ProduceFn, metaSend execution.MetaSendFn) error {
	out := make([]mon.Msg, len(p.msgs))
	for i, m := range p.msgs {
		if m.Kind == "rec" {
			vals := make([]gen.JV, len(p.idx))
			for k, j := range p.idx {
				vals[k] = m.Vals[j]
			}
			m.Vals = vals
		}
		out[i] = m
	}
	return (&mon.Scripted{Msgs: out}).Run(ctx, produce, metaSend)
}

type memDB struct{ tables map[string]*Table }

func (d *memDB) ListTables(ctx context.Context) ([]string, error) { return nil, nil }
func (d *memDB) GetTable(ctx context.Context, name string, options map[string]string) (physical.DatasourceImplementation, physical.Schema, error) {
	t, ok := d.tables[name]
	if !ok {
		return nil, physical.Schema{}, fmt.Errorf("no such mem table %q", name)
	}
	fields := make([]physical.SchemaField, len(t.Cols))
	for i := range t.Cols {
		fields[i] = physical.SchemaField{Name: t.Cols[i], Type: t.Types[i].Oct()}
	}
	return &memImpl{t}, physical.NewSchema(fields, t.TimeField, physical.WithNoRetractions(t.NoRetractions)), nil
}

type fileDB struct {
	creator func(ctx context.Context, name string, options map[string]string) (physical.DatasourceImplementation, physical.Schema, error)
}

func (f *fileDB) ListTables(ctx context.Context) ([]string, error) { return nil, nil }
func (f *fileDB) GetTable(ctx context.Context, name string, options map[string]string) (physical.DatasourceImplementation, physical.Schema, error) {
	return f.creator(ctx, name, options)
}

// Env builds the same environment cmd/root.go builds, plus database "mem".
func Env(tables map[string]*Table) physical.Environment {
	fileHandlers := map[string]func(ctx context.Context, name string, options map[string]string) (physical.DatasourceImplementation, physical.Schema, error){
		"csv":     csv.Creator(','),
		"json":    json.Creator,
		"lines":   lines.Creator,
		"parquet": parquet.Creator,
		"tsv":     csv.Creator('\t'),
	}
	databases := map[string]func() (physical.Database, error){
		"mem": func() (physical.Database, error) { return &memDB{tables}, nil },
	}
	for name := range fileHandlers {
		h := fileHandlers[name]
		databases[name] = func() (physical.Database, error) { return &fileDB{h}, nil }
	}
	return physical.Environment{
		Aggregates:  aggregates.Aggregates,
		Functions:   FunctionMap(),
		Datasources: &physical.DatasourceRepository{Databases: databases, FileHandlers: fileHandlers},
	}
}

var (
	fmOnce sync.Once
	fm     map[string]physical.FunctionDetails
)

// FunctionMap returns one function map per process, as the CLI has (FunctionMap() allocates the LIKE/regexp caches).
func FunctionMap() map[string]physical.FunctionDetails {
	fmOnce.Do(func() { fm = functions.FunctionMap() })
	return fm
}

var TVFs = map[string]logical.TableValuedFunctionDescription{
	"max_diff_watermark": table_valued_functions.MaxDiffWatermark,
	"tumble":             table_valued_functions.Tumble,
	"range":              table_valued_functions.Range,
	"poll":               table_valued_functions.Poll,
}

// Plan is a compiled query.
type Plan struct {
	Physical  physical.Node
	Exec      execution.Node
	OutFields []physical.SchemaField // original (user-visible) names
	Ordered   bool
}

type Options struct {
	Optimize bool
	// Raw: do not wrap with the output-level ORDER BY / LIMIT transform (the plan root is returned as is).
	Raw bool
}

// ErrStage tells where compilation failed.
type CompileError struct {
	Stage string // parse | logical | typecheck | materialize
	Err   error
	Panic bool // a non-typecheck Go panic (typecheck reports errors by panicking by design)
}

func (e *CompileError) Error() string { return e.Stage + ": " + e.Err.Error() }

func Context() context.Context {
	return config.ContextWithConfig(context.Background(), &config.Config{Files: config.FilesConfig{JSON: config.JSONConfig{MaxLineSizeBytes: 1024 * 1024}}})
}

func recoverTo(stage string, out **CompileError, typecheckStage bool) {
	if r := recover(); r != nil {
		*out = &CompileError{Stage: stage, Err: fmt.Errorf("%v", r), Panic: !typecheckStage}
	}
}

func Compile(ctx context.Context, sql string, env physical.Environment, opt Options) (plan *Plan, cerr *CompileError) {
	statement, err := func() (st sqlparser.Statement, err error) {
		defer func() {
			if r := recover(); r != nil {
				err = fmt.Errorf("PANIC %v", r)
			}
		}()
		return sqlparser.Parse(sql)
	}()
	if err != nil {
		return nil, &CompileError{Stage: "parse", Err: err, Panic: strings.HasPrefix(err.Error(), "PANIC")}
	}
	selectStmt, ok := statement.(sqlparser.SelectStatement)
	if !ok {
		return nil, &CompileError{Stage: "parse", Err: fmt.Errorf("only SELECT statements are supported")}
	}
	var logicalPlan logical.Node
	var outputOptions *parser.OutputOptions
	func() {
		defer recoverTo("logical", &cerr, false)
		logicalPlan, outputOptions, err = parser.ParseNode(selectStmt)
	}()
	if cerr != nil {
		return nil, cerr
	}
	if err != nil {
		return nil, &CompileError{Stage: "logical", Err: err}
	}
	uniqueNameGenerator := map[string]int{}
	var physicalPlan physical.Node
	var mapping map[string]string
	func() {
		defer recoverTo("typecheck", &cerr, true)
		physicalPlan, mapping = logicalPlan.Typecheck(ctx, env, logical.Environment{
			CommonTableExpressions: map[string]logical.CommonTableExpression{},
			TableValuedFunctions:   TVFs,
			UniqueNameGenerator:    uniqueNameGenerator,
		})
	}()
	if cerr != nil {
		return nil, cerr
	}
	reverseMapping := logical.ReverseMapping(mapping)
	exprEnv := func() logical.Environment {
		return logical.Environment{
			CommonTableExpressions: map[string]logical.CommonTableExpression{},
			TableValuedFunctions:   TVFs,
			UniqueVariableNames:    &logical.VariableMapping{Mapping: mapping},
			UniqueNameGenerator:    uniqueNameGenerator,
		}
	}
	physOrder := make([]physical.Expression, len(outputOptions.OrderByExpressions))
	for i := range outputOptions.OrderByExpressions {
		func() {
			defer recoverTo("typecheck", &cerr, true)
			physOrder[i] = outputOptions.OrderByExpressions[i].Typecheck(ctx, env.WithRecordSchema(physicalPlan.Schema), exprEnv())
		}()
		if cerr != nil {
			return nil, cerr
		}
	}
	var physLimit *physical.Expression
	if outputOptions.Limit != nil {
		func() {
			defer recoverTo("typecheck", &cerr, true)
			e := (*outputOptions.Limit).Typecheck(ctx, env.WithRecordSchema(physicalPlan.Schema), exprEnv())
			physLimit = &e
		}()
		if cerr != nil {
			return nil, cerr
		}
	}
	if opt.Optimize {
		func() {
			defer recoverTo("optimize", &cerr, false)
			physicalPlan = optimizer.Optimize(physicalPlan)
		}()
		if cerr != nil {
			return nil, cerr
		}
	}
	var executionPlan execution.Node
	func() {
		defer recoverTo("materialize", &cerr, false)
		executionPlan, err = physicalPlan.Materialize(ctx, env)
	}()
	if cerr != nil {
		return nil, cerr
	}
	if err != nil {
		return nil, &CompileError{Stage: "materialize", Err: err}
	}
	orderBy := make([]execution.Expression, len(physOrder))
	for i := range physOrder {
		func() {
			defer recoverTo("materialize", &cerr, false)
			orderBy[i], err = physOrder[i].Materialize(ctx, env.WithRecordSchema(physicalPlan.Schema))
		}()
		if cerr != nil {
			return nil, cerr
		}
		if err != nil {
			return nil, &CompileError{Stage: "materialize", Err: err}
		}
	}
	var limitExpr *execution.Expression
	if physLimit != nil {
		func() {
			defer recoverTo("materialize", &cerr, false)
			var e execution.Expression
			e, err = physLimit.Materialize(ctx, env.WithRecordSchema(physicalPlan.Schema))
			limitExpr = &e
		}()
		if cerr != nil {
			return nil, cerr
		}
		if err != nil {
			return nil, &CompileError{Stage: "materialize", Err: err}
		}
	}
	outFields := make([]physical.SchemaField, len(physicalPlan.Schema.Fields))
	copy(outFields, physicalPlan.Schema.Fields)
	for i := range outFields {
		outFields[i].Name = reverseMapping[outFields[i].Name]
	}
	if !opt.Raw {
		// as cmd/root.go does for -o csv / json / stream_native
		if len(orderBy) > 0 || (limitExpr != nil && !physicalPlan.Schema.NoRetractions) {
			executionPlan = nodes.NewOrderSensitiveTransform(executionPlan, orderBy, logical.DirectionsToMultipliers(outputOptions.OrderByDirections), limitExpr, physicalPlan.Schema.NoRetractions)
		} else if limitExpr != nil {
			executionPlan = nodes.NewLimit(executionPlan, *limitExpr)
		}
	}
	return &Plan{Physical: physicalPlan, Exec: executionPlan, OutFields: outFields, Ordered: len(orderBy) > 0}, nil
}

// Run executes the plan.
func (p *Plan) Run(ctx context.Context) ([]mon.Out, error) {
	return mon.RunCtx(execution.ExecutionContext{Context: ctx}, p.Exec)
}

// RunGuard executes the plan and converts a panic on the calling goroutine into an error flagged as panic.
func (p *Plan) RunGuard(ctx context.Context) (outs []mon.Out, err error, panicked bool) {
	defer func() {
		if r := recover(); r != nil {
			err = fmt.Errorf("PANIC: %v", r)
			panicked = true
		}
	}()
	outs, err = p.Run(ctx)
	return
}

func Rows(outs []mon.Out) [][]octosql.Value {
	var rows [][]octosql.Value
	for _, o := range outs {
		if !o.IsWM {
			rows = append(rows, o.Rec.Values)
		}
	}
	return rows
}
