package inproc

import (
	"fmt"
	"reflect"
	"testing"

	"github.com/cube2222/octosql/octosql"
	"pgregory.net/rapid"

	"verifharness/ev"
	"verifharness/gen"
	"verifharness/model"
)

// C10 — type algebra laws.

type c10Pair struct {
	A gen.JT `json:"a"`
	B gen.JT `json:"b"`
}

// differentShapes reports whether a and b contain, at corresponding positions, structs with different
// field-name sequences or tuples of different length (the signature of finding typesum-positional).
func differentShapes(a, b octosql.Type) bool {
	if a.TypeID == octosql.TypeIDUnion || b.TypeID == octosql.TypeIDUnion {
		as, bs := []octosql.Type{a}, []octosql.Type{b}
		if a.TypeID == octosql.TypeIDUnion {
			as = a.Union.Alternatives
		}
		if b.TypeID == octosql.TypeIDUnion {
			bs = b.Union.Alternatives
		}
		for _, x := range as {
			for _, y := range bs {
				if x.TypeID == y.TypeID && differentShapes(x, y) {
					return true
				}
			}
		}
		return false
	}
	if a.TypeID != b.TypeID {
		return false
	}
	switch a.TypeID {
	case octosql.TypeIDList:
		if a.List.Element == nil || b.List.Element == nil {
			return false
		}
		return differentShapes(*a.List.Element, *b.List.Element)
	case octosql.TypeIDStruct:
		if len(a.Struct.Fields) != len(b.Struct.Fields) {
			return true
		}
		for i := range a.Struct.Fields {
			if a.Struct.Fields[i].Name != b.Struct.Fields[i].Name {
				return true
			}
			// TypeSum re-sorts the merged fields by name (and merges equal names), Is() is positional
			if i > 0 && a.Struct.Fields[i-1].Name >= a.Struct.Fields[i].Name && !a.Equals(b) {
				return true
			}
		}
		for i := range a.Struct.Fields {
			if differentShapes(a.Struct.Fields[i].Type, b.Struct.Fields[i].Type) {
				return true
			}
		}
	case octosql.TypeIDTuple:
		if len(a.Tuple.Elements) != len(b.Tuple.Elements) {
			return true
		}
		for i := range a.Tuple.Elements {
			if differentShapes(a.Tuple.Elements[i], b.Tuple.Elements[i]) {
				return true
			}
		}
	}
	return false
}

func isComposite(t octosql.Type) bool {
	return t.TypeID >= octosql.TypeIDList && t.TypeID <= octosql.TypeIDUnion
}

func hasNullAlt(t octosql.Type) bool {
	if t.TypeID != octosql.TypeIDUnion {
		return false
	}
	for _, a := range t.Union.Alternatives {
		if a.TypeID == octosql.TypeIDNull {
			return true
		}
	}
	return false
}

func c10PairProp(r *ev.Rec) func(c c10Pair) ev.Outcome {
	return func(c c10Pair) ev.Outcome {
		// the operands get slices with spare capacity (as unions grown by successive TypeSum calls have): an operation that
		// appends to an argument's slice instead of copying it then shows, as a changed argument or a corrupted earlier result
		a, b := withSpareCapacity(c.A.Oct()), withSpareCapacity(c.B.Oct())
		a0, b0 := a.String(), b.String()
		o := ev.Outcome{NonTrivial: a.TypeID != b.TypeID || isComposite(a) || isComposite(b)}
		if isComposite(a) || isComposite(b) {
			o.Classes = append(o.Classes, "pair_with_composite")
		}
		if a.TypeID == octosql.TypeIDUnion || b.TypeID == octosql.TypeIDUnion {
			o.Classes = append(o.Classes, "pair_with_union")
		}
		// reflexivity
		for _, t := range []octosql.Type{a, b} {
			if t.Is(t) != octosql.TypeRelationIs {
				return ev.Fail("reflexivity: %s.Is(itself) = %d", t, t.Is(t))
			}
			if !t.Equals(t) {
				return ev.Fail("reflexivity: !%s.Equals(itself)", t)
			}
		}
		shapes := differentShapes(a, b)
		if shapes {
			o.Classes = append(o.Classes, "pair_with_different_struct_or_tuple_shapes")
		}
		var knownHit bool
		check := func(law string, ok bool, detail string) *ev.Outcome {
			if ok {
				return nil
			}
			if shapes && r.Known("typesum-positional") {
				knownHit = true
				return nil
			}
			f := ev.Fail("%s violated for a=%s b=%s: %s", law, a, b, detail)
			return &f
		}
		// upper bound
		s := octosql.TypeSum(a, b)
		s2 := octosql.TypeSum(b, a)
		if f := check("upper bound a.Is(TypeSum(a,b))", a.Is(s) == octosql.TypeRelationIs, fmt.Sprintf("sum=%s rel=%d", s, a.Is(s))); f != nil {
			return *f
		}
		if f := check("upper bound b.Is(TypeSum(a,b))", b.Is(s) == octosql.TypeRelationIs, fmt.Sprintf("sum=%s rel=%d", s, b.Is(s))); f != nil {
			return *f
		}
		// commutativity up to equality
		if f := check("commutativity", s.Equals(s2), fmt.Sprintf("TypeSum(a,b)=%s TypeSum(b,a)=%s", s, s2)); f != nil {
			return *f
		}
		// idempotence
		for _, t := range []octosql.Type{a, b} {
			if tt := octosql.TypeSum(t, t); !tt.Equals(t) {
				return ev.Fail("idempotence: TypeSum(%s,%s)=%s", t, t, tt)
			}
		}
		// intersection
		if in := octosql.TypeIntersection(a, b); in != nil {
			o.Classes = append(o.Classes, "intersection_nonempty")
			if f := check("intersection contained in a", in.Is(a) == octosql.TypeRelationIs, fmt.Sprintf("intersection=%s", *in)); f != nil {
				return *f
			}
			if f := check("intersection contained in b", in.Is(b) == octosql.TypeRelationIs, fmt.Sprintf("intersection=%s", *in)); f != nil {
				return *f
			}
		}
		// NonNullable
		for _, t := range []octosql.Type{a, b, s} {
			if t.TypeID == octosql.TypeIDNull {
				continue // documented: NonNullable(NULL) = NULL
			}
			nn := octosql.NonNullable(t)
			if nn.TypeID == octosql.TypeIDNull || hasNullAlt(nn) {
				return ev.Fail("NonNullable(%s)=%s still admits NULL", t, nn)
			}
			if hasNullAlt(t) {
				o.Classes = append(o.Classes, "nonnullable_on_nullable")
				back := octosql.TypeSum(nn, octosql.Null)
				if !back.Equals(t) {
					return ev.Fail("NonNullable removed more than NULL: t=%s NonNullable=%s, adding NULL back gives %s", t, nn, back)
				}
			} else if !nn.Equals(t) {
				return ev.Fail("NonNullable changed a type without NULL: %s -> %s", t, nn)
			}
		}
		// nothing above may have modified its arguments, and the first sum must still be what it was
		if a.String() != a0 || b.String() != b0 {
			return ev.Fail("an operation modified its argument: a was %s and is %s, b was %s and is %s", a0, a, b0, b)
		}
		if s3 := octosql.TypeSum(a, b); s3.String() != s.String() && !shapes {
			return ev.Fail("TypeSum(%s,%s) gave %s first and %s later (an earlier result shares memory with an argument)", a, b, s, s3)
		}
		if knownHit {
			o.Excluded = "typesum-positional"
		}
		return o
	}
}

// withSpareCapacity rebuilds t with slices that have room to grow (cap > len), recursively.
func withSpareCapacity(t octosql.Type) octosql.Type {
	switch t.TypeID {
	case octosql.TypeIDUnion:
		alts := make([]octosql.Type, 0, len(t.Union.Alternatives)+3)
		for _, x := range t.Union.Alternatives {
			alts = append(alts, withSpareCapacity(x))
		}
		t.Union.Alternatives = alts
	case octosql.TypeIDList:
		if t.List.Element != nil {
			e := withSpareCapacity(*t.List.Element)
			t.List.Element = &e
		}
	case octosql.TypeIDStruct:
		fields := make([]octosql.StructField, 0, len(t.Struct.Fields)+3)
		for _, f := range t.Struct.Fields {
			fields = append(fields, octosql.StructField{Name: f.Name, Type: withSpareCapacity(f.Type)})
		}
		t.Struct.Fields = fields
	case octosql.TypeIDTuple:
		elems := make([]octosql.Type, 0, len(t.Tuple.Elements)+3)
		for _, x := range t.Tuple.Elements {
			elems = append(elems, withSpareCapacity(x))
		}
		t.Tuple.Elements = elems
	}
	return t
}

type c10Val struct {
	V gen.JV `json:"v"`
}

// heterogeneousStructsInList: value contains a list whose struct/tuple elements have different shapes
// (its Type() goes through TypeSum of differently-shaped structs: finding typesum-positional).
func heteroShapes(v octosql.Value) bool {
	switch v.TypeID {
	case octosql.TypeIDList:
		for i := range v.List {
			if heteroShapes(v.List[i]) {
				return true
			}
			for j := i + 1; j < len(v.List); j++ {
				if differentShapes(v.List[i].Type(), v.List[j].Type()) {
					return true
				}
			}
		}
	case octosql.TypeIDStruct:
		// unnamed fields all share the name "", so a struct with >=2 fields inside a list is merged by name
		for _, e := range v.Struct {
			if heteroShapes(e) {
				return true
			}
		}
	case octosql.TypeIDTuple:
		for _, e := range v.Tuple {
			if heteroShapes(e) {
				return true
			}
		}
	}
	return false
}

func c10ValProp(r *ev.Rec) func(c c10Val) ev.Outcome {
	return func(c c10Val) ev.Outcome {
		v := c.V.Oct()
		t := v.Type()
		o := ev.Outcome{NonTrivial: v.TypeID >= octosql.TypeIDList, Classes: []string{"value_self_type"}}
		if !model.Conforms(v, t) {
			if heteroShapes(v) && r.Known("typesum-positional") {
				o.Excluded = "typesum-positional"
				return o
			}
			return ev.Fail("value %s does not match the type it reports for itself: %s", v, t)
		}
		return o
	}
}

// enumTypes lists every type with at most `size` nodes over a reduced leaf set for inner positions.
func enumTypes() []octosql.Type {
	scal := func(k string) octosql.Type { return gen.JT{K: k}.Oct() }
	list := func(e *octosql.Type) octosql.Type {
		t := octosql.Type{TypeID: octosql.TypeIDList}
		t.List.Element = e
		return t
	}
	strct := func(names []string, ts ...octosql.Type) octosql.Type {
		t := octosql.Type{TypeID: octosql.TypeIDStruct}
		t.Struct.Fields = []octosql.StructField{}
		for i := range ts {
			t.Struct.Fields = append(t.Struct.Fields, octosql.StructField{Name: names[i], Type: ts[i]})
		}
		return t
	}
	tuple := func(ts ...octosql.Type) octosql.Type {
		t := octosql.Type{TypeID: octosql.TypeIDTuple}
		t.Tuple.Elements = append([]octosql.Type{}, ts...)
		return t
	}
	union := func(ts ...octosql.Type) (octosql.Type, bool) {
		seen := map[octosql.TypeID]bool{}
		for _, t := range ts {
			if seen[t.TypeID] || t.TypeID == octosql.TypeIDUnion || t.TypeID == octosql.TypeIDAny {
				return octosql.Type{}, false
			}
			seen[t.TypeID] = true
		}
		for i := 1; i < len(ts); i++ {
			if ts[i-1].TypeID >= ts[i].TypeID {
				return octosql.Type{}, false
			}
		}
		t := octosql.Type{TypeID: octosql.TypeIDUnion}
		t.Union.Alternatives = append([]octosql.Type{}, ts...)
		return t, true
	}
	var s1 []octosql.Type
	for _, k := range []string{"null", "int", "float", "bool", "str", "time", "dur", "any"} {
		s1 = append(s1, scal(k))
	}
	s1 = append(s1, list(nil), strct(nil), tuple())
	red := []octosql.Type{scal("null"), scal("int"), scal("str")}
	var s2 []octosql.Type
	for i := range red {
		e := red[i]
		s2 = append(s2, list(&e), strct([]string{"a"}, e), strct([]string{"b"}, e), tuple(e))
	}
	for _, x := range s1 {
		for _, y := range s1 {
			if u, ok := union(x, y); ok {
				s2 = append(s2, u)
			}
		}
	}
	var s3 []octosql.Type
	for i := range red {
		for j := range red {
			s3 = append(s3, strct([]string{"a", "b"}, red[i], red[j]), strct([]string{"b", "a"}, red[i], red[j]), tuple(red[i], red[j]))
		}
	}
	nint, _ := union(scal("null"), scal("int"))
	nstr, _ := union(scal("null"), scal("str"))
	istr, _ := union(scal("int"), scal("str"))
	for _, e := range []octosql.Type{nint, nstr, istr, list(nil), tuple(), strct(nil)} {
		e := e
		s3 = append(s3, list(&e), strct([]string{"a"}, e), tuple(e))
	}
	comp := []octosql.Type{}
	for _, x := range s2 {
		if x.TypeID != octosql.TypeIDUnion {
			comp = append(comp, x)
		}
	}
	for _, x := range []octosql.Type{scal("null"), scal("int"), scal("str")} {
		for _, y := range comp {
			if u, ok := union(x, y); ok {
				s3 = append(s3, u)
			}
		}
	}
	for _, x := range comp {
		for _, y := range comp {
			if u, ok := union(x, y); ok {
				s3 = append(s3, u)
			}
		}
	}
	if u, ok := union(scal("null"), scal("int"), scal("str")); ok {
		s3 = append(s3, u)
	}
	if u, ok := union(scal("null"), scal("float"), list(nil)); ok {
		s3 = append(s3, u)
	}
	all := append(append(s1, s2...), s3...)
	return all
}

// c10Alts: the alternatives of a union in the order given (distinct TypeIDs, no union, no Any) - NOT sorted. The planner
// builds such unions by hand (logical.TypecheckPossiblyNullableStruct appends NULL last) and plugins send theirs as they are.
type c10Alts struct {
	Alts []gen.JT `json:"alts"`
}

func c10UnorderedProp(c c10Alts) ev.Outcome {
	mk := func() octosql.Type {
		t := octosql.Type{TypeID: octosql.TypeIDUnion}
		for _, a := range c.Alts {
			t.Union.Alternatives = append(t.Union.Alternatives, a.Oct())
		}
		return t
	}
	t, orig := mk(), mk()
	sorted := true
	for i := 1; i < len(t.Union.Alternatives); i++ {
		if t.Union.Alternatives[i-1].TypeID >= t.Union.Alternatives[i].TypeID {
			sorted = false
		}
	}
	o := ev.Outcome{NonTrivial: !sorted && hasNullAlt(t), Classes: []string{fmt.Sprintf("unordered_union_%d_alternatives", len(c.Alts))}}
	if !sorted {
		o.Classes = append(o.Classes, "union_not_sorted")
	}
	if t.Is(t) != octosql.TypeRelationIs {
		return ev.Fail("Is is not reflexive on %s", t)
	}
	nn := octosql.NonNullable(t)
	if !reflect.DeepEqual(t, orig) {
		return ev.Fail("NonNullable modified its argument: %s became %s", orig, t)
	}
	if nn.TypeID == octosql.TypeIDNull || hasNullAlt(nn) || octosql.Null.Is(nn) == octosql.TypeRelationIs {
		return ev.Fail("NonNullable(%s)=%s still admits NULL", t, nn)
	}
	if nn.Is(t) != octosql.TypeRelationIs {
		return ev.Fail("NonNullable(%s)=%s is not contained in its argument", t, nn)
	}
	for _, a := range orig.Union.Alternatives {
		if a.TypeID != octosql.TypeIDNull && a.Is(nn) != octosql.TypeRelationIs {
			return ev.Fail("NonNullable removed more than NULL: alternative %s of %s is not admitted by %s", a, t, nn)
		}
	}
	return o
}

func TestC10(t *testing.T) {
	r := ev.New("C10", "exploration",
		"pairs: every ordered pair of the enumerated types with <=3 nodes (exhaustive part) plus rapid pairs of nested normal-form types (depth<=3); "+
			"values: rapid values nested to depth 3 checked against their own Type(). Operands are built with spare slice capacity and must come back unmodified (and the first TypeSum must be reproducible afterwards). Laws: Is reflexive; TypeSum upper bound, commutative, idempotent (up to Equals); "+
			"TypeIntersection contained in both; NonNullable removes exactly NULL (NonNullable(NULL)=NULL is documented and skipped). "+
			"unordered_unions: unions given by their alternatives in any order (all ordered selections of 2 and 3 distinct-TypeID alternatives from a pool of 16 types, complete; rapid selections of 2-6): Is reflexive, NonNullable leaves no NULL, keeps every other alternative, invents nothing and does not modify its argument (non-trivial: not sorted and has NULL). "+
			"non-trivial pair: different TypeIDs or a composite (list/struct/tuple/union) on either side; non-trivial value: composite. distinct = canonical JSON of the case",
		"in the pair laws unions are in octosql's normal form (distinct TypeIDs, sorted, not nested, >=2 alternatives), the form TypeSum builds; unions assembled by hand (any order of alternatives) are covered by unordered_unions for the order-independent laws")
	types := enumTypes()
	r.SetExtra("enumerated_types", len(types))
	pairProp := c10PairProp(r)
	ev.Enumerate(t, r, "pairs_exhaustive", func(yield func(c10Pair) bool) {
		for _, a := range types {
			for _, b := range types {
				if !yield(c10Pair{gen.TypeFromOct(a), gen.TypeFromOct(b)}) {
					return
				}
			}
		}
	}, pairProp)
	ev.Check(t, r, "pairs_random", ev.N(400000, 8000000), func(t *rapid.T) c10Pair {
		a := gen.NormType(t, 3, "a")
		var b gen.JT
		switch rapid.IntRange(0, 3).Draw(t, "rel") {
		case 0: // related: b is a sum involving a, so that Is/Equals relations are exercised in the interesting direction
			b = gen.TypeFromOct(octosqlSumForGen(a.Oct(), gen.NormType(t, 2, "b").Oct()))
		default:
			b = gen.NormType(t, 3, "b")
		}
		return c10Pair{a, b}
	}, pairProp)
	// unions whose alternatives are not in TypeSum's order: all ordered selections of 2 and 3 alternatives out of a pool
	var pool []gen.JT
	for _, k := range []string{"null", "int", "float", "bool", "str", "time", "dur"} {
		pool = append(pool, gen.JT{K: k})
	}
	for _, x := range types {
		if (x.TypeID == octosql.TypeIDList || x.TypeID == octosql.TypeIDStruct || x.TypeID == octosql.TypeIDTuple) && len(pool) < 7+9 {
			pool = append(pool, gen.TypeFromOct(x))
		}
	}
	distinctIDs := func(alts []gen.JT) bool {
		seen := map[octosql.TypeID]bool{}
		for _, a := range alts {
			id := a.Oct().TypeID
			if seen[id] {
				return false
			}
			seen[id] = true
		}
		return true
	}
	ev.Enumerate(t, r, "unordered_unions", func(yield func(c10Alts) bool) {
		for _, a := range pool {
			for _, b := range pool {
				if distinctIDs([]gen.JT{a, b}) && !yield(c10Alts{[]gen.JT{a, b}}) {
					return
				}
				for _, c := range pool {
					if distinctIDs([]gen.JT{a, b, c}) && !yield(c10Alts{[]gen.JT{a, b, c}}) {
						return
					}
				}
			}
		}
	}, c10UnorderedProp)
	ev.Check(t, r, "unordered_unions_random", ev.N(60000, 1000000), func(t *rapid.T) c10Alts {
		n := rapid.IntRange(2, 6).Draw(t, "n")
		var alts []gen.JT
		seen := map[octosql.TypeID]bool{}
		for len(alts) < n {
			var a gen.JT
			if rapid.IntRange(0, 3).Draw(t, "null") == 0 {
				a = gen.JT{K: "null"}
			} else {
				a = gen.NormType(t, 2, "alt")
			}
			o := a.Oct()
			if o.TypeID == octosql.TypeIDUnion || o.TypeID == octosql.TypeIDAny || seen[o.TypeID] {
				n--
				continue
			}
			seen[o.TypeID] = true
			alts = append(alts, a)
		}
		if len(alts) < 2 {
			alts = []gen.JT{{K: "int"}, {K: "null"}}
		}
		return c10Alts{alts}
	}, c10UnorderedProp)
	ev.Check(t, r, "value_self_type", ev.N(400000, 8000000), func(t *rapid.T) c10Val {
		return c10Val{gen.Value(t, 3, "v")}
	}, c10ValProp(r))
}

// octosqlSumForGen builds "a | b" in normal form without calling TypeSum (generator independence).
func octosqlSumForGen(a, b octosql.Type) octosql.Type {
	alts := []octosql.Type{}
	add := func(t octosql.Type) {
		for _, x := range alts {
			if x.TypeID == t.TypeID {
				return
			}
		}
		alts = append(alts, t)
	}
	for _, t := range []octosql.Type{a, b} {
		if t.TypeID == octosql.TypeIDUnion {
			for _, x := range t.Union.Alternatives {
				add(x)
			}
		} else {
			add(t)
		}
	}
	if len(alts) == 1 {
		return alts[0]
	}
	for i := range alts {
		for j := i + 1; j < len(alts); j++ {
			if alts[j].TypeID < alts[i].TypeID {
				alts[i], alts[j] = alts[j], alts[i]
			}
		}
	}
	for _, x := range alts {
		if x.TypeID == octosql.TypeIDAny {
			return x
		}
	}
	out := octosql.Type{TypeID: octosql.TypeIDUnion}
	out.Union.Alternatives = alts
	return out
}
