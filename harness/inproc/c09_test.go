package inproc

import (
	"fmt"
	"math"
	"sort"
	"strings"
	"testing"

	"github.com/cube2222/octosql/octosql"
	"pgregory.net/rapid"

	"verifharness/eng"
	"verifharness/ev"
	"verifharness/gen"
	"verifharness/mon"
)

// C09 — value ordering, equality and hashing agree.

func c09Universe() []gen.JV {
	nan2 := gen.JV{K: "float", F: "7ff8000000000001"} // a second NaN bit pattern
	negNaN := gen.JV{K: "float", F: "fff8000000000000"}
	u := []gen.JV{
		gen.Null(),
		gen.Int(-1), gen.Int(0), gen.Int(1), gen.Int(math.MinInt64), gen.Int(math.MaxInt64),
		gen.FromFloat(math.Inf(-1)), gen.FromFloat(-1), gen.FromFloat(math.Copysign(0, -1)), gen.FromFloat(0), gen.FromFloat(1), gen.FromFloat(math.Inf(1)), gen.FromFloat(math.NaN()), nan2, negNaN,
		gen.Bool(false), gen.Bool(true),
		gen.Str(""), gen.Str("a"), gen.Str("A"), gen.Str("b"), gen.Str("ab"), gen.Str("é"),
		gen.Time(0), gen.Time(1e9), {K: "time", I: 1e9, Z: 3600},
		gen.Dur(0), gen.Dur(-1), gen.Dur(1e9),
		gen.List(), gen.List(gen.Int(0)), gen.List(gen.Int(0), gen.Int(1)), gen.List(gen.FromFloat(math.NaN())), gen.List(gen.List()), gen.List(gen.FromFloat(0)), gen.List(gen.FromFloat(math.Copysign(0, -1))),
		gen.Struct(), gen.Struct(gen.Int(0)), gen.Struct(gen.Int(0), gen.Str("a")), gen.Struct(gen.FromFloat(math.Copysign(0, -1))), gen.Struct(gen.FromFloat(0)),
		gen.Tuple(), gen.Tuple(gen.Int(0)), gen.Tuple(gen.Null()), gen.Tuple(gen.FromFloat(math.NaN()), gen.Int(1)), gen.Tuple(gen.FromFloat(0), gen.Int(1)), gen.Tuple(gen.FromFloat(math.Copysign(0, -1)), gen.Int(1)),
	}
	return u
}

type c09Triple struct {
	A gen.JV `json:"a"`
	B gen.JV `json:"b"`
	C gen.JV `json:"c"`
}

func sign(x int) int {
	if x < 0 {
		return -1
	}
	if x > 0 {
		return 1
	}
	return 0
}

func edgeFloat(v gen.JV) bool {
	if v.K == "float" {
		f := v.Float()
		return math.IsNaN(f) || math.IsInf(f, 0) || (f == 0 && math.Signbit(f))
	}
	for _, e := range v.L {
		if edgeFloat(e) {
			return true
		}
	}
	return false
}

func c09LawsProp(c c09Triple) ev.Outcome {
	a, b, cc := c.A.Oct(), c.B.Oct(), c.C.Oct()
	o := ev.Outcome{}
	vs := []octosql.Value{a, b, cc}
	js := []gen.JV{c.A, c.B, c.C}
	for i := range vs {
		for j := range vs {
			if i != j && vs[i].TypeID == vs[j].TypeID && js[i].String() != js[j].String() {
				o.NonTrivial = true
			}
		}
		if edgeFloat(js[i]) {
			o.NonTrivial = true
			o.Classes = append(o.Classes, "triple_with_edge_float")
		}
	}
	for _, x := range vs {
		if x.Compare(x) != 0 {
			return ev.Fail("reflexivity: Compare(%s, itself) = %d", x, x.Compare(x))
		}
	}
	for i := range vs {
		for j := range vs {
			x, y := vs[i], vs[j]
			cxy, cyx := x.Compare(y), y.Compare(x)
			if cxy < -1 || cxy > 1 {
				return ev.Fail("Compare(%s,%s)=%d is not in {-1,0,1}", x, y, cxy)
			}
			if sign(cxy) != -sign(cyx) {
				return ev.Fail("antisymmetry: Compare(%s,%s)=%d but Compare(%s,%s)=%d", x, y, cxy, y, x, cyx)
			}
			if cxy == 0 {
				if x.Hash() != y.Hash() {
					return ev.Fail("values compare equal but hash differently: %s (%s) vs %s (%s)", x, js[i], y, js[j])
				}
				if octosql.HashManyValues([]octosql.Value{x, vs[0]}) != octosql.HashManyValues([]octosql.Value{y, vs[0]}) {
					return ev.Fail("HashManyValues differs for equal keys: %s vs %s", x, y)
				}
			}
			wantEq := cxy == 0 && x.TypeID != octosql.TypeIDNull
			if x.Equal(y) != wantEq {
				return ev.Fail("Equal(%s,%s)=%v but Compare=%d", x, y, x.Equal(y), cxy)
			}
		}
	}
	// transitivity of <=
	if a.Compare(b) <= 0 && b.Compare(cc) <= 0 && !(a.Compare(cc) <= 0) {
		return ev.Fail("transitivity: %s <= %s and %s <= %s but Compare(%s,%s)=%d", a, b, b, cc, a, cc, a.Compare(cc))
	}
	// equality is a congruence for the order
	if a.Compare(b) == 0 && sign(a.Compare(cc)) != sign(b.Compare(cc)) {
		return ev.Fail("%s and %s compare equal but order differently against %s (%d vs %d)", a, b, cc, a.Compare(cc), b.Compare(cc))
	}
	return o
}

// ---- operators agree -------------------------------------------------------------------------------

type c09Column struct {
	Vals []gen.JV `json:"vals"`
}

func columnType(vals []octosql.Value) octosql.Type {
	t := vals[0].Type()
	for _, v := range vals[1:] {
		t = octosqlSumForGen(t, v.Type())
	}
	return t
}

func classesOf(vals []octosql.Value) (classOf []int, n int) {
	classOf = make([]int, len(vals))
	for i := range vals {
		classOf[i] = -1
		for j := 0; j < i; j++ {
			if vals[i].Compare(vals[j]) == 0 {
				classOf[i] = classOf[j]
				break
			}
		}
		if classOf[i] == -1 {
			classOf[i] = n
			n++
		}
	}
	return
}

func partitionKey(groups [][]int64) string {
	var parts []string
	for _, g := range groups {
		sort.Slice(g, func(i, j int) bool { return g[i] < g[j] })
		parts = append(parts, fmt.Sprint(g))
	}
	sort.Strings(parts)
	return strings.Join(parts, "")
}

func c09OperatorsProp(c c09Column) ev.Outcome {
	vals := gen.Octs(c.Vals)
	classOf, nClasses := classesOf(vals)
	o := ev.Outcome{}
	bitsDiffer := false
	for i := range vals {
		for j := 0; j < i; j++ {
			if classOf[i] == classOf[j] && c.Vals[i].String() != c.Vals[j].String() {
				bitsDiffer = true
			}
		}
	}
	if bitsDiffer {
		o.NonTrivial = true
		o.Classes = append(o.Classes, "column_with_equal_values_of_different_representation")
	}
	if nClasses < len(vals) {
		o.Classes = append(o.Classes, "column_with_duplicates")
	}
	// homogeneous scalar column? then typed operators (=, <) apply too
	vt := columnType(vals)
	rows := make([][]gen.JV, len(vals))
	for i := range vals {
		rows[i] = []gen.JV{gen.Int(int64(i)), c.Vals[i]}
	}
	tbl := eng.RowsTable([]string{"id", "v"}, []gen.JT{{K: "int"}, gen.TypeFromOct(vt)}, rows)
	env := eng.Env(map[string]*eng.Table{"t": tbl})
	ctx := eng.Context()
	run := func(sql string, raw bool) ([][]octosql.Value, error) {
		plan, cerr := eng.Compile(ctx, sql, env, eng.Options{Optimize: true, Raw: raw})
		if cerr != nil {
			return nil, fmt.Errorf("query %q does not compile: %v", sql, cerr)
		}
		outs, err := plan.Run(ctx)
		if err != nil {
			return nil, fmt.Errorf("query %q failed: %v", sql, err)
		}
		if raw {
			bag, err := mon.Consolidate(outs)
			if err != nil {
				return nil, fmt.Errorf("query %q: %v", sql, err)
			}
			_ = bag
			// rebuild consolidated rows
			var res [][]octosql.Value
			cnt := map[string]int{}
			for _, o := range outs {
				if o.IsWM {
					continue
				}
				k := mon.RowKey(o.Rec.Values)
				if o.Rec.Retraction {
					cnt[k]--
				} else {
					cnt[k]++
				}
			}
			for _, o := range outs {
				if o.IsWM || o.Rec.Retraction {
					continue
				}
				k := mon.RowKey(o.Rec.Values)
				if cnt[k] > 0 {
					cnt[k]--
					res = append(res, o.Rec.Values)
				}
			}
			return res, nil
		}
		return eng.Rows(outs), nil
	}
	wantGroups := make([][]int64, nClasses)
	for i := range vals {
		wantGroups[classOf[i]] = append(wantGroups[classOf[i]], int64(i))
	}
	wantPart := partitionKey(wantGroups)
	// GROUP BY (hash based and btree based)
	for _, q := range []struct {
		name, sql string
		raw       bool
	}{
		{"GROUP BY", "SELECT t.v AS v, array_agg(t.id) AS ids FROM mem.t t GROUP BY t.v", false},
		{"GROUP BY with TRIGGER (btree)", "SELECT t.v AS v, array_agg(t.id) AS ids FROM mem.t t GROUP BY t.v TRIGGER COUNTING 1000000, ON END OF STREAM", true},
	} {
		rs, err := run(q.sql, q.raw)
		if err != nil {
			return ev.Fail("%v", err)
		}
		var groups [][]int64
		for _, r := range rs {
			var g []int64
			for _, id := range r[1].List {
				g = append(g, id.Int)
			}
			groups = append(groups, g)
		}
		if got := partitionKey(groups); got != wantPart {
			return ev.Fail("%s over column %v groups row ids as %s, value comparison gives %s", q.name, vals, got, wantPart)
		}
	}
	// DISTINCT
	rs, err := run("SELECT DISTINCT t.v AS v FROM mem.t t", false)
	if err != nil {
		return ev.Fail("%v", err)
	}
	if len(rs) != nClasses {
		return ev.Fail("DISTINCT over column %v returns %d rows, value comparison gives %d classes", vals, len(rs), nClasses)
	}
	// COUNT(DISTINCT), array_agg(DISTINCT) — aggregates skip NULL inputs
	nonNullClasses := nClasses
	for _, v := range vals {
		if v.TypeID == octosql.TypeIDNull {
			nonNullClasses--
			break
		}
	}
	rs, err = run("SELECT COUNT(DISTINCT t.v) AS c, array_agg(DISTINCT t.v) AS l FROM mem.t t", false)
	if err != nil {
		return ev.Fail("%v", err)
	}
	if nonNullClasses > 0 {
		if len(rs) != 1 || rs[0][0].Int != int64(nonNullClasses) || len(rs[0][1].List) != nonNullClasses {
			return ev.Fail("COUNT(DISTINCT)/array_agg(DISTINCT) over column %v gives %v, value comparison gives %d non-NULL classes", vals, rs, nonNullClasses)
		}
	}
	// ORDER BY
	rs, err = run("SELECT t.id AS id, t.v AS v FROM mem.t t ORDER BY v", false)
	if err != nil {
		return ev.Fail("%v", err)
	}
	if len(rs) != len(vals) {
		return ev.Fail("ORDER BY over column %v returns %d rows, want %d", vals, len(rs), len(vals))
	}
	seen := map[int64]bool{}
	for i, r := range rs {
		if seen[r[0].Int] {
			return ev.Fail("ORDER BY over column %v returns row id %d twice", vals, r[0].Int)
		}
		seen[r[0].Int] = true
		if i > 0 && vals[rs[i-1][0].Int].Compare(vals[r[0].Int]) > 0 {
			return ev.Fail("ORDER BY over column %v: output order %v is not ascending under value comparison at position %d", vals, rs, i)
		}
	}
	rs, err = run("SELECT t.id AS id, t.v AS v FROM mem.t t ORDER BY v DESC", false)
	if err != nil {
		return ev.Fail("%v", err)
	}
	for i, r := range rs {
		if i > 0 && vals[rs[i-1][0].Int].Compare(vals[r[0].Int]) < 0 {
			return ev.Fail("ORDER BY DESC over column %v: output order %v is not descending under value comparison at position %d", vals, rs, i)
		}
	}
	// self join on v: pairs (i,j) with equal, non-NULL values
	for _, optimize := range []bool{true, false} {
		plan, cerr := eng.Compile(ctx, "SELECT a.id AS i, b.id AS j FROM mem.t a JOIN mem.t b ON a.v = b.v", env, eng.Options{Optimize: optimize})
		if cerr != nil {
			return ev.Fail("self join does not compile: %v", cerr)
		}
		outs, err := plan.Run(ctx)
		if err != nil {
			return ev.Fail("self join failed: %v", err)
		}
		got := map[[2]int64]int{}
		for _, r := range eng.Rows(outs) {
			got[[2]int64{r[0].Int, r[1].Int}]++
		}
		for i := range vals {
			for j := range vals {
				want := 0
				if classOf[i] == classOf[j] && vals[i].TypeID != octosql.TypeIDNull {
					want = 1
				}
				if got[[2]int64{int64(i), int64(j)}] != want {
					return ev.Fail("self join ON a.v = b.v over column %v (optimize=%v): pair (%d,%d) values (%s,%s) appears %d times, want %d", vals, optimize, i, j, vals[i], vals[j], got[[2]int64{int64(i), int64(j)}], want)
				}
			}
		}
	}
	// the = and < functions through the typechecker (pairs of the column type)
	for i := range vals {
		for j := range vals {
			eq, _, err := evalFunction("=", []octosql.Type{vt, vt}, []octosql.Value{vals[i], vals[j]})
			if err != nil {
				return ev.Fail("= failed: %v", err)
			}
			if vals[i].TypeID == octosql.TypeIDNull || vals[j].TypeID == octosql.TypeIDNull {
				if eq.TypeID != octosql.TypeIDNull {
					return ev.Fail("%s = %s gives %s, want NULL", vals[i], vals[j], eq)
				}
				continue
			}
			if eq.TypeID != octosql.TypeIDBoolean || eq.Boolean != (classOf[i] == classOf[j]) {
				return ev.Fail("%s = %s gives %s, but GROUP BY/ORDER BY comparison says %v", vals[i], vals[j], eq, classOf[i] == classOf[j])
			}
			lt, _, err := evalFunction("<", []octosql.Type{vt, vt}, []octosql.Value{vals[i], vals[j]})
			if err != nil {
				return ev.Fail("< failed: %v", err)
			}
			le, _, _ := evalFunction("<=", []octosql.Type{vt, vt}, []octosql.Value{vals[i], vals[j]})
			gt, _, _ := evalFunction(">", []octosql.Type{vt, vt}, []octosql.Value{vals[j], vals[i]})
			cmp := vals[i].Compare(vals[j])
			if lt.Boolean != (cmp < 0) || le.Boolean != (cmp <= 0) || gt.Boolean != (cmp < 0) {
				return ev.Fail("operators disagree with the sort order on (%s, %s): < %s, <= %s, flipped > %s, Compare %d", vals[i], vals[j], lt, le, gt, cmp)
			}
		}
	}
	return o
}

func TestC09(t *testing.T) {
	r := ev.New("C09", "exploration",
		"laws_exhaustive: all ordered triples of a 47-value universe (NULL, ints, floats incl. -0.0/+0.0/Inf/3 NaN bit patterns, booleans, strings, times incl. one instant in two zones, durations, nested lists/objects/tuples): "+
			"reflexive, antisymmetric, transitive, equal=>same Hash and HashManyValues, Equal <=> Compare==0 except NULL, equality is a congruence; laws_random: same on rapid values nested to depth 3; "+
			"operators: a generated column of 2-7 values is pushed through GROUP BY (hash and btree implementations), DISTINCT, COUNT(DISTINCT), array_agg(DISTINCT), ORDER BY asc/desc, a self equi-join (optimised and not) and the = < <= > functions; "+
			"the partition into equal values and the order each induces must be the one Compare induces (NULL: grouped together, never equal under = / join). "+
			"non-trivial triple: two distinct values of one kind or an edge float; non-trivial column: two values equal under Compare with different representations (-0.0/+0.0, NaN patterns, one instant in two zones)")
	u := c09Universe()
	r.SetExtra("universe_size", len(u))
	ev.Enumerate(t, r, "laws_exhaustive", func(yield func(c09Triple) bool) {
		for _, a := range u {
			for _, b := range u {
				for _, c := range u {
					if !yield(c09Triple{a, b, c}) {
						return
					}
				}
			}
		}
	}, c09LawsProp)
	ev.Check(t, r, "laws_random", ev.N(200000, 5000000), func(t *rapid.T) c09Triple {
		a := gen.Value(t, 3, "a")
		b := gen.Value(t, 3, "b")
		c := gen.Value(t, 3, "c")
		// bias towards comparable triples: reuse kinds
		if rapid.IntRange(0, 2).Draw(t, "samekind") > 0 {
			b = sameKind(t, a, "b2")
			c = sameKind(t, a, "c2")
		}
		return c09Triple{a, b, c}
	}, c09LawsProp)
	ev.Check(t, r, "operators", ev.N(4000, 150000), func(t *rapid.T) c09Column {
		kind := rapid.SampledFrom([]string{"float", "float", "float", "time", "int", "str", "mixed", "list", "tuple"}).Draw(t, "kind")
		n := rapid.IntRange(2, 7).Draw(t, "n")
		vals := make([]gen.JV, n)
		for i := range vals {
			switch kind {
			case "float":
				vals[i] = rapid.SampledFrom([]gen.JV{gen.FromFloat(0), gen.FromFloat(math.Copysign(0, -1)), gen.FromFloat(math.NaN()), {K: "float", F: "7ff8000000000001"}, gen.FromFloat(1), gen.FromFloat(-1), gen.FromFloat(math.Inf(1)), gen.FromFloat(math.Inf(-1)), gen.Null()}).Draw(t, "v")
			case "time":
				vals[i] = rapid.SampledFrom([]gen.JV{gen.Time(1e9), {K: "time", I: 1e9, Z: 3600}, {K: "time", I: 1e9, Z: -7200}, gen.Time(2e9), gen.Time(0), gen.Null()}).Draw(t, "v")
			case "int":
				vals[i] = rapid.SampledFrom([]gen.JV{gen.Int(0), gen.Int(1), gen.Int(-1), gen.Int(math.MinInt64), gen.Int(math.MaxInt64), gen.Null()}).Draw(t, "v")
			case "str":
				vals[i] = rapid.SampledFrom([]gen.JV{gen.Str(""), gen.Str("a"), gen.Str("A"), gen.Str("ab"), gen.Str("é"), gen.Null()}).Draw(t, "v")
			case "list":
				vals[i] = rapid.SampledFrom([]gen.JV{gen.List(), gen.List(gen.FromFloat(0)), gen.List(gen.FromFloat(math.Copysign(0, -1))), gen.List(gen.FromFloat(math.NaN())), gen.List(gen.FromFloat(0), gen.FromFloat(1))}).Draw(t, "v")
			case "tuple":
				vals[i] = rapid.SampledFrom([]gen.JV{gen.Tuple(gen.FromFloat(0), gen.Int(1)), gen.Tuple(gen.FromFloat(math.Copysign(0, -1)), gen.Int(1)), gen.Tuple(gen.FromFloat(math.NaN()), gen.Int(1)), gen.Tuple(gen.FromFloat(1), gen.Int(0))}).Draw(t, "v")
			default:
				vals[i] = rapid.SampledFrom(c09Universe()[:29]).Draw(t, "v")
			}
		}
		return c09Column{vals}
	}, c09OperatorsProp)
}

func sameKind(t *rapid.T, a gen.JV, label string) gen.JV {
	switch a.K {
	case "list", "struct", "tuple":
		n := rapid.IntRange(0, 3).Draw(t, label+"n")
		l := make([]gen.JV, n)
		for i := range l {
			if i < len(a.L) && rapid.Bool().Draw(t, label+"copy") {
				l[i] = a.L[i]
			} else if i < len(a.L) {
				l[i] = sameKind(t, a.L[i], fmt.Sprintf("%s%d", label, i))
			} else {
				l[i] = gen.Value(t, 1, fmt.Sprintf("%s%d", label, i))
			}
		}
		return gen.JV{K: a.K, L: l}
	}
	return gen.Scalar(t, a.K, label)
}
