package inproc

import (
	"fmt"
	"sort"
	"strings"
	"testing"

	"github.com/cube2222/octosql/octosql"
	"pgregory.net/rapid"

	"verifharness/eng"
	"verifharness/ev"
	"verifharness/gen"
)

// C11 — three-valued logic and NULL propagation.

// BX is a boolean expression tree: Op in {var, lit, not, and, or}.
type BX struct {
	Op   string `json:"op"`
	Name string `json:"name,omitempty"` // var: a|b|c ; lit: TRUE|FALSE|NULL
	Args []BX   `json:"args,omitempty"`
}

func (b BX) SQL() string {
	switch b.Op {
	case "var":
		return "t." + b.Name
	case "lit":
		return b.Name
	case "not":
		return "(NOT " + b.Args[0].SQL() + ")"
	}
	parts := make([]string, len(b.Args))
	for i := range b.Args {
		parts[i] = b.Args[i].SQL()
	}
	return "(" + strings.Join(parts, " "+strings.ToUpper(b.Op)+" ") + ")"
}

// tri: 0 = FALSE, 1 = TRUE, 2 = NULL
func (b BX) Eval(env map[string]int) int {
	switch b.Op {
	case "var":
		return env[b.Name]
	case "lit":
		return map[string]int{"FALSE": 0, "TRUE": 1, "NULL": 2}[b.Name]
	case "not":
		v := b.Args[0].Eval(env)
		if v == 2 {
			return 2
		}
		return 1 - v
	case "and":
		sawNull := false
		for _, a := range b.Args {
			switch a.Eval(env) {
			case 0:
				return 0
			case 2:
				sawNull = true
			}
		}
		if sawNull {
			return 2
		}
		return 1
	case "or":
		sawNull := false
		for _, a := range b.Args {
			switch a.Eval(env) {
			case 1:
				return 1
			case 2:
				sawNull = true
			}
		}
		if sawNull {
			return 2
		}
		return 0
	}
	panic("bad op")
}

func (b BX) notOfNullLiteral() bool {
	if b.Op == "not" && b.Args[0].Op == "lit" && b.Args[0].Name == "NULL" {
		return true
	}
	for _, a := range b.Args {
		if a.notOfNullLiteral() {
			return true
		}
	}
	return false
}

func (b BX) hasVar() bool {
	if b.Op == "var" {
		return true
	}
	for _, a := range b.Args {
		if a.hasVar() {
			return true
		}
	}
	return false
}

func triJV(v int) gen.JV {
	switch v {
	case 0:
		return gen.Bool(false)
	case 1:
		return gen.Bool(true)
	}
	return gen.Null()
}

func triOf(v octosql.Value) (int, bool) {
	switch v.TypeID {
	case octosql.TypeIDNull:
		return 2, true
	case octosql.TypeIDBoolean:
		if v.Boolean {
			return 1, true
		}
		return 0, true
	}
	return 0, false
}

var triTable = func() *eng.Table {
	bn := gen.JT{K: "union", Parts: []gen.JT{{K: "null"}, {K: "bool"}}}
	var rows [][]gen.JV
	for a := 0; a < 3; a++ {
		for b := 0; b < 3; b++ {
			for c := 0; c < 3; c++ {
				rows = append(rows, []gen.JV{triJV(a), triJV(b), triJV(c)})
			}
		}
	}
	return eng.RowsTable([]string{"a", "b", "c"}, []gen.JT{bn, bn, bn}, rows)
}()

type c11Expr struct {
	E BX `json:"e"`
}

func c11KleeneProp(c c11Expr) ev.Outcome {
	env := eng.Env(map[string]*eng.Table{"t": triTable})
	ctx := eng.Context()
	o := ev.Outcome{NonTrivial: c.E.hasVar(), Classes: []string{"expr_op_" + c.E.Op}}
	for _, optimize := range []bool{true, false} {
		// SELECT: the value of the expression on every assignment
		sql := "SELECT t.a AS a, t.b AS b, t.c AS c, " + c.E.SQL() + " AS r FROM mem.t t"
		plan, cerr := eng.Compile(ctx, sql, env, eng.Options{Optimize: optimize})
		if cerr != nil {
			if cerr.Stage == "typecheck" && c.E.notOfNullLiteral() {
				return ev.Outcome{Discard: true}
			}
			return ev.Fail("query %q does not compile: %v", sql, cerr)
		}
		outs, err := plan.Run(ctx)
		if err != nil {
			return ev.Fail("query %q failed: %v", sql, err)
		}
		rows := eng.Rows(outs)
		if len(rows) != 27 {
			return ev.Fail("query %q returned %d rows, want 27", sql, len(rows))
		}
		for _, row := range rows {
			a, _ := triOf(row[0])
			b, _ := triOf(row[1])
			cc, _ := triOf(row[2])
			want := c.E.Eval(map[string]int{"a": a, "b": b, "c": cc})
			got, ok := triOf(row[3])
			if !ok || got != want {
				return ev.Fail("%s with a=%s b=%s c=%s evaluates to %s, Kleene logic gives %s (optimize=%v)", c.E.SQL(), row[0], row[1], row[2], row[3], triJV(want).Oct(), optimize)
			}
		}
		// WHERE keeps exactly the TRUE rows
		sql = "SELECT t.a AS a, t.b AS b, t.c AS c FROM mem.t t WHERE " + c.E.SQL()
		plan, cerr = eng.Compile(ctx, sql, env, eng.Options{Optimize: optimize})
		if cerr != nil {
			return ev.Fail("query %q does not compile: %v", sql, cerr)
		}
		outs, err = plan.Run(ctx)
		if err != nil {
			return ev.Fail("query %q failed: %v", sql, err)
		}
		var got, want []string
		for _, row := range eng.Rows(outs) {
			got = append(got, fmt.Sprint(row))
		}
		for a := 0; a < 3; a++ {
			for b := 0; b < 3; b++ {
				for cc := 0; cc < 3; cc++ {
					if c.E.Eval(map[string]int{"a": a, "b": b, "c": cc}) == 1 {
						want = append(want, fmt.Sprint([]octosql.Value{triJV(a).Oct(), triJV(b).Oct(), triJV(cc).Oct()}))
					}
				}
			}
		}
		sort.Strings(got)
		sort.Strings(want)
		if strings.Join(got, ";") != strings.Join(want, ";") {
			return ev.Fail("WHERE %s keeps rows %v, but the predicate is TRUE exactly on %v (optimize=%v)", c.E.SQL(), got, want, optimize)
		}
	}
	return o
}

func bxLeaves() []BX {
	return []BX{{Op: "var", Name: "a"}, {Op: "var", Name: "b"}, {Op: "var", Name: "c"}, {Op: "lit", Name: "TRUE"}, {Op: "lit", Name: "FALSE"}, {Op: "lit", Name: "NULL"}}
}

func bxLevel(prev []BX) []BX {
	out := append([]BX{}, prev...)
	for _, x := range prev {
		out = append(out, BX{Op: "not", Args: []BX{x}})
	}
	for _, op := range []string{"and", "or"} {
		for _, x := range prev {
			for _, y := range prev {
				out = append(out, BX{Op: op, Args: []BX{x, y}})
			}
		}
	}
	return out
}

func genBX(t *rapid.T, depth int, label string) BX {
	k := rapid.IntRange(0, 5).Draw(t, label+"k")
	if depth == 0 || k == 0 {
		return rapid.SampledFrom(bxLeaves()).Draw(t, label+"leaf")
	}
	switch k {
	case 1:
		return BX{Op: "not", Args: []BX{genBX(t, depth-1, label+"n")}}
	case 2, 3:
		n := rapid.IntRange(2, 3).Draw(t, label+"arity")
		args := make([]BX, n)
		for i := range args {
			args[i] = genBX(t, depth-1, fmt.Sprintf("%sa%d", label, i))
		}
		return BX{Op: "and", Args: args}
	default:
		n := rapid.IntRange(2, 3).Draw(t, label+"arity")
		args := make([]BX, n)
		for i := range args {
			args[i] = genBX(t, depth-1, fmt.Sprintf("%so%d", label, i))
		}
		return BX{Op: "or", Args: args}
	}
}

// ---- strict functions ---------------------------------------------------------------------------

type c11Strict struct {
	Fn       string   `json:"fn"`
	Args     []gen.JV `json:"args"`               // non-NULL sample arguments (they select the overload through their types)
	Null     []bool   `json:"nulls"`              // which positions are replaced by NULL at run time
	Nullable []bool   `json:"nullable,omitempty"` // which positions have a nullable STATIC type (nil = all); NULL only occurs there
}

func sampleFor(t octosql.Type, variant int) (gen.JV, bool) {
	switch t.TypeID {
	case octosql.TypeIDInt:
		return gen.Int([]int64{2, 3, 1}[variant%3]), true
	case octosql.TypeIDFloat:
		return gen.FromFloat([]float64{2.5, 0.5, 1}[variant%3]), true
	case octosql.TypeIDBoolean:
		return gen.Bool(variant%2 == 0), true
	case octosql.TypeIDString:
		return gen.Str([]string{"ab", "", "a%"}[variant%3]), true
	case octosql.TypeIDTime:
		return gen.Time(1500000000e9), true
	case octosql.TypeIDDuration:
		return gen.Dur(5e9), true
	case octosql.TypeIDAny:
		return gen.Int(7), true
	}
	return gen.JV{}, false
}

// strictCases enumerates (function, overload sample args) for every Strict descriptor of the function map.
func strictCases() []c11Strict {
	fm := eng.FunctionMap()
	names := make([]string, 0, len(fm))
	for n := range fm {
		names = append(names, n)
	}
	sort.Strings(names)
	var out []c11Strict
	typeFnSamples := map[string][][]gen.JV{
		"<":      {{gen.Int(1), gen.Int(2)}, {gen.Str("a"), gen.Str("b")}, {gen.FromFloat(1), gen.FromFloat(2)}, {gen.Bool(true), gen.Bool(false)}, {gen.Time(1e9), gen.Time(2e9)}, {gen.Dur(1), gen.Dur(2)}},
		"len":    {{gen.List(gen.Int(1), gen.Int(2))}, {gen.Struct(gen.Int(1))}, {gen.Tuple(gen.Int(1), gen.Str("x"))}},
		"[]":     {{gen.List(gen.Int(1), gen.Int(2)), gen.Int(0)}, {gen.List(gen.Str("x")), gen.Int(5)}},
		"in":     {{gen.Int(1), gen.List(gen.Int(1), gen.Int(2))}, {gen.Int(3), gen.Tuple(gen.Int(1), gen.Int(2))}, {gen.Str("a"), gen.List(gen.Str("b"))}},
		"not in": {{gen.Int(1), gen.List(gen.Int(1), gen.Int(2))}, {gen.Int(3), gen.Tuple(gen.Int(1), gen.Int(2))}},
	}
	for _, k := range []string{"<=", ">", ">="} {
		typeFnSamples[k] = typeFnSamples["<"]
	}
	for _, name := range names {
		if name == "now" {
			continue // no arguments
		}
		seenTypeFn := false
		for _, d := range fm[name].Descriptors {
			if !d.Strict {
				continue
			}
			if d.TypeFn != nil {
				if seenTypeFn {
					continue
				}
				seenTypeFn = true
				for _, s := range typeFnSamples[name] {
					out = append(out, c11Strict{Fn: name, Args: s})
				}
				continue
			}
			for variant := 0; variant < 2; variant++ {
				args := make([]gen.JV, len(d.ArgumentTypes))
				ok := true
				for i, at := range d.ArgumentTypes {
					args[i], ok = sampleFor(at, variant+i)
					if !ok {
						break
					}
				}
				if ok && len(args) > 0 {
					out = append(out, c11Strict{Fn: name, Args: args})
				}
			}
		}
	}
	// expand with every static nullability mask (which arguments have a nullable static type) and, within it, every
	// run-time NULL mask: the typechecker only plans NULL checks for statically nullable arguments, so mixed masks matter
	var full []c11Strict
	for _, c := range out {
		n := len(c.Args)
		for smask := 1; smask < 1<<n; smask++ {
			nullable := make([]bool, n)
			for i := range nullable {
				nullable[i] = smask&(1<<i) != 0
			}
			for mask := 0; mask < 1<<n; mask++ {
				if mask&^smask != 0 {
					continue // NULL only where the static type admits it
				}
				nulls := make([]bool, n)
				for i := range nulls {
					nulls[i] = mask&(1<<i) != 0
				}
				full = append(full, c11Strict{Fn: c.Fn, Args: c.Args, Null: nulls, Nullable: nullable})
			}
		}
	}
	return full
}

func evalFunction(fn string, staticTypes []octosql.Type, values []octosql.Value) (octosql.Value, octosql.Type, error) {
	return eng.EvalFunction(fn, staticTypes, values)
}

func c11StrictProp(c c11Strict) ev.Outcome {
	static := make([]octosql.Type, len(c.Args))
	values := make([]octosql.Value, len(c.Args))
	anyNull := false
	for i, a := range c.Args {
		v := a.Oct()
		static[i] = v.Type()
		if c.Nullable == nil || c.Nullable[i] {
			static[i] = nullableOf(v.Type())
		}
		values[i] = v
		if c.Null[i] {
			values[i] = octosql.NewNull()
			anyNull = true
		}
	}
	o := ev.Outcome{NonTrivial: anyNull, Classes: []string{"strict_fn_" + c.Fn}, Key: fmt.Sprintf("%s/%v/%v", c.Fn, static, c.Null)}
	v, _, err := evalFunction(c.Fn, static, values)
	if err != nil {
		if anyNull {
			return ev.Fail("strict function %s(%v) with NULL argument(s) %v failed instead of returning NULL: %v", c.Fn, static, c.Null, err)
		}
		// all-present control: an error here means the sample itself is unsuitable, not a NULL-propagation issue
		return ev.Outcome{Discard: true}
	}
	if anyNull && v.TypeID != octosql.TypeIDNull {
		return ev.Fail("strict function %s over static types %v with run-time arguments %v returned %s, want NULL", c.Fn, static, values, v)
	}
	return o
}

func nullableOf(t octosql.Type) octosql.Type { return eng.Nullable(t) }

type c11IsNull struct {
	V      gen.JV `json:"v"`
	Static string `json:"static"` // "exact" | "nullable" | "any"
}

func c11IsNullProp(c c11IsNull) ev.Outcome {
	v := c.V.Oct()
	st := v.Type()
	switch c.Static {
	case "nullable":
		st = nullableOf(st)
	case "any":
		st = octosql.Any
	}
	o := ev.Outcome{NonTrivial: true, Classes: []string{"is_null_" + c.V.K}}
	for _, fn := range []string{"is null", "is not null"} {
		got, _, err := evalFunction(fn, []octosql.Type{st}, []octosql.Value{v})
		if err != nil {
			return ev.Fail("%s on %s failed: %v", fn, v, err)
		}
		want := v.TypeID == octosql.TypeIDNull
		if fn == "is not null" {
			want = !want
		}
		if got.TypeID != octosql.TypeIDBoolean || got.Boolean != want {
			return ev.Fail("(%s) %s = %s, want %v", v, fn, got, want)
		}
	}
	return o
}

func TestC11(t *testing.T) {
	r := ev.New("C11", "exploration",
		"kleene_exhaustive: every AND/OR/NOT tree of depth<=2 over leaves {a,b,c,TRUE,FALSE,NULL} evaluated through the real SQL pipeline (optimised and not) on all 27 assignments of {TRUE,FALSE,NULL}^3, both as a SELECT item and as a WHERE predicate; "+
			"kleene_random: rapid trees of depth<=4 with 2-3-ary AND/OR; strict_functions: every Strict descriptor of functions.FunctionMap() reached through the real typechecker with every combination of nullable / non-nullable static argument types and, within it, every run-time NULL mask; "+
			"strict_on_join_padding: comparisons, arithmetic, string functions and NOT over the columns of two tables whose columns are declared non-nullable, joined with LEFT / RIGHT / OUTER JOIN (all combinations, optimised and not): on every emitted row the expression is NULL exactly when it reads a padded side, (expr) IS NULL is the matching Boolean, and WHERE keeps no row whose predicate reads a padded column; "+
			"is_null: IS [NOT] NULL on values of every kind with exact/nullable/Any static type. non-trivial: tree mentions a column (so NULL operands occur) / mask has a NULL / always for is_null. distinct = canonical case JSON",
		"NOT applied directly to the NULL literal is rejected by the typechecker (not(NULL) has no overload): counted as discarded, it is a rejection, not a wrong value")
	ev.Enumerate(t, r, "kleene_exhaustive", func(yield func(c11Expr) bool) {
		for _, e := range bxLevel(bxLevel(bxLeaves())) {
			if !yield(c11Expr{e}) {
				return
			}
		}
	}, c11KleeneProp)
	ev.Check(t, r, "kleene_random", ev.N(6000, 300000), func(t *rapid.T) c11Expr {
		return c11Expr{genBX(t, 4, "e")}
	}, c11KleeneProp)
	ev.Enumerate(t, r, "strict_functions", func(yield func(c11Strict) bool) {
		for _, c := range strictCases() {
			if !yield(c) {
				return
			}
		}
	}, c11StrictProp)
	ev.Enumerate(t, r, "strict_on_join_padding", c11PadCases, c11PadProp)
	ev.Enumerate(t, r, "is_null", func(yield func(c11IsNull) bool) {
		vals := []gen.JV{gen.Null(), gen.Int(0), gen.FromFloat(0), gen.Bool(false), gen.Str(""), gen.Time(0), gen.Time(5), gen.Dur(0), gen.List(), gen.List(gen.Null()), gen.Struct(gen.Null()), gen.Tuple(gen.Null(), gen.Int(1))}
		for _, v := range vals {
			for _, st := range []string{"exact", "nullable", "any"} {
				if !yield(c11IsNull{v, st}) {
					return
				}
			}
		}
	}, c11IsNullProp)
}
