package inproc

import (
	"fmt"

	"github.com/cube2222/octosql/octosql"

	"verifharness/eng"
	"verifharness/ev"
	"verifharness/gen"
	"verifharness/mon"
)

// C11, NULLs that come from outer-join padding: the columns of both tables are declared NON-nullable, so the only NULLs a
// strict function can meet are the padded ones - their nullability has to come from the join's own typing.

type c11Pad struct {
	Join string `json:"join"` // LEFT | RIGHT | OUTER
	Expr string `json:"expr"` // over l.x l.s r.y r.u
	Side string `json:"side"` // which side's columns the expression reads: l | r | both
	Bool bool   `json:"bool"` // the expression is boolean (also used as a WHERE predicate)
}

var c11PadExprs = []c11Pad{
	{Expr: "r.y = 1", Side: "r", Bool: true}, {Expr: "r.y != 1", Side: "r", Bool: true}, {Expr: "r.y < 100", Side: "r", Bool: true},
	{Expr: "NOT (r.y = 1)", Side: "r", Bool: true}, {Expr: "r.u != 'x'", Side: "r", Bool: true}, {Expr: "r.u = 'x'", Side: "r", Bool: true},
	{Expr: "r.y + 1", Side: "r"}, {Expr: "upper(r.u)", Side: "r"}, {Expr: "len(r.u)", Side: "r"}, {Expr: "r.u + 'z'", Side: "r"}, {Expr: "- r.y", Side: "r"},
	{Expr: "l.x = 1", Side: "l", Bool: true}, {Expr: "l.x != 1", Side: "l", Bool: true}, {Expr: "NOT (l.s = 'x')", Side: "l", Bool: true},
	{Expr: "l.x + 1", Side: "l"}, {Expr: "upper(l.s)", Side: "l"}, {Expr: "len(l.s)", Side: "l"},
	{Expr: "l.x = r.y", Side: "both", Bool: true}, {Expr: "l.x != r.y", Side: "both", Bool: true}, {Expr: "l.x + r.y", Side: "both"}, {Expr: "l.s + r.u", Side: "both"},
}

var c11PadTables = func() map[string]*eng.Table {
	i, s := gen.JT{K: "int"}, gen.JT{K: "str"}
	return map[string]*eng.Table{
		"l": eng.RowsTable([]string{"k", "x", "s"}, []gen.JT{i, i, s}, [][]gen.JV{{gen.Int(1), gen.Int(1), gen.Str("x")}, {gen.Int(2), gen.Int(5), gen.Str("q")}, {gen.Int(2), gen.Int(1), gen.Str("x")}}),
		"r": eng.RowsTable([]string{"k", "y", "u"}, []gen.JT{i, i, s}, [][]gen.JV{{gen.Int(2), gen.Int(1), gen.Str("x")}, {gen.Int(3), gen.Int(7), gen.Str("w")}, {gen.Int(3), gen.Int(1), gen.Str("x")}}),
	}
}()

func c11PadProp(c c11Pad) ev.Outcome {
	env := eng.Env(c11PadTables)
	ctx := eng.Context()
	o := ev.Outcome{NonTrivial: true, Classes: []string{"join_padding_" + c.Join, "join_padding_reads_" + c.Side}}
	isNull := func(v octosql.Value) bool { return v.TypeID == octosql.TypeIDNull }
	for _, optimize := range []bool{true, false} {
		sql := fmt.Sprintf("SELECT l.k AS lk, r.k AS rk, (%s) AS e, ((%s) IS NULL) AS n FROM mem.l l %s JOIN mem.r r ON l.k = r.k", c.Expr, c.Expr, c.Join)
		plan, cerr := eng.Compile(ctx, sql, env, eng.Options{Optimize: optimize})
		if cerr != nil {
			return ev.Fail("query %q does not compile: %v", sql, cerr)
		}
		outs, err := plan.Run(ctx)
		if err != nil {
			return ev.Fail("query %q failed: %v", sql, err)
		}
		padded := 0
		for _, out := range outs {
			if out.IsWM {
				continue
			}
			row := out.Rec.Values
			wantNull := c.Side != "l" && isNull(row[1]) || c.Side != "r" && isNull(row[0])
			if wantNull {
				padded++
			}
			if isNull(row[2]) != wantNull {
				return ev.Fail("%s JOIN: on the row lk=%s rk=%s the strict expression %s evaluates to %s; an argument is NULL there exactly when its side is padded, so it must be %s (optimize=%v)\n  %s",
					c.Join, row[0], row[1], c.Expr, row[2], map[bool]string{true: "NULL", false: "a value"}[wantNull], optimize, sql)
			}
			if row[3].TypeID != octosql.TypeIDBoolean || row[3].Boolean != wantNull {
				return ev.Fail("%s JOIN: on the row lk=%s rk=%s (%s) IS NULL is %s, want %v (optimize=%v)", c.Join, row[0], row[1], c.Expr, row[3], wantNull, optimize)
			}
		}
		if padded == 0 {
			return ev.Fail("harness: %q produced no padded row", sql)
		}
		if !c.Bool {
			continue
		}
		// WHERE keeps exactly the rows on which the predicate is TRUE: never a row whose predicate reads a padded column
		sql = fmt.Sprintf("SELECT l.k AS lk, r.k AS rk FROM mem.l l %s JOIN mem.r r ON l.k = r.k WHERE %s", c.Join, c.Expr)
		plan, cerr = eng.Compile(ctx, sql, env, eng.Options{Optimize: optimize})
		if cerr != nil {
			return ev.Fail("query %q does not compile: %v", sql, cerr)
		}
		outs, err = plan.Run(ctx)
		if err != nil {
			return ev.Fail("query %q failed: %v", sql, err)
		}
		bag, err := mon.Consolidate(outs)
		if err != nil {
			return ev.Fail("query %q: %v", sql, err)
		}
		final := map[string]bool{}
		for k, n := range bag {
			if n > 0 {
				final[k] = true
			}
		}
		for _, out := range outs {
			if out.IsWM || out.Rec.Retraction || !final[mon.RowKey(out.Rec.Values)] {
				continue
			}
			row := out.Rec.Values
			if c.Side != "l" && isNull(row[1]) || c.Side != "r" && isNull(row[0]) {
				return ev.Fail("%s JOIN ... WHERE %s keeps the row lk=%s rk=%s, on which the predicate reads a padded (NULL) column and therefore is NULL, not TRUE (optimize=%v)\n  %s", c.Join, c.Expr, row[0], row[1], optimize, sql)
			}
		}
	}
	return o
}

func c11PadCases(yield func(c11Pad) bool) {
	for _, j := range []string{"LEFT", "RIGHT", "OUTER"} {
		for _, e := range c11PadExprs {
			if j == "LEFT" && e.Side == "l" || j == "RIGHT" && e.Side == "r" {
				continue // that side is never padded by this join
			}
			e.Join = j
			if !yield(e) {
				return
			}
		}
	}
}
