package pc15

import (
	"fmt"
	"os"
	"testing"

	"verifharness/cli"
	"verifharness/ev"
	"verifharness/mon"
	"verifharness/srig"
)

// C15 — operators keep a valid changelog and compute incrementally what batch computes.

func c15Prop(c srig.Case) ev.Outcome {
	obs, err := srig.Run(c)
	if err != nil {
		return ev.Outcome{Err: err}
	}
	if os.Getenv("VERIF_DEBUG") != "" {
		fmt.Println("DEBUG query:", c.SQL, "\nDEBUG outs:", mon.FormatOuts(obs.Outs))
	}
	rows, err := srig.Rows(obs.Outs, obs.Res.Cols)
	if err != nil {
		return ev.Fail("%v\n  query: %s\n  output changelog: %s", err, c.SQL, mon.FormatOuts(obs.Outs))
	}
	if err := cli.CompareResult(obs.Res, rows, false); err != nil {
		in := ""
		for _, t := range c.Tables {
			in += "\n  input " + t.Spec.File() + ": " + mon.FormatMsgs(t.Msgs)
		}
		return ev.Fail("consolidated output differs from the operator applied to the consolidated input: %v\n  query: %s (optimize=%v)%s\n  output changelog: %s", err, c.SQL, c.Optimize, in, mon.FormatOuts(obs.Outs))
	}
	o := ev.Outcome{}
	nonAdj := false
	for _, t := range c.Tables {
		if mon.HasNonAdjacentRetraction(t.Msgs) {
			nonAdj = true
		}
	}
	o.NonTrivial = nonAdj && len(obs.Res.Full) > 0
	retractsOut := false
	for _, x := range obs.Outs {
		if !x.IsWM && x.Rec.Retraction {
			retractsOut = true
		}
	}
	cl := map[string]bool{"input_has_non_adjacent_retraction": nonAdj, "output_has_retractions": retractsOut, "where": c.Q.Where != nil, "distinct": c.Q.Distinct,
		"group_by": c.Q.Grouped || (c.Q.From.Sub != nil && c.Q.From.Sub.Grouped), "order_or_limit": obs.Ordered, "subquery": c.Q.From.Kind == "sub", "optimized": c.Optimize}
	for _, j := range c.Q.Joins {
		cl["join_"+j.Type] = true
	}
	for _, t := range c.Tables {
		if t.Timed {
			cl["timed_input"] = true
		}
	}
	for k, v := range cl {
		if v {
			o.Classes = append(o.Classes, k)
		}
	}
	return o
}

func TestC15(t *testing.T) {
	r := ev.New("C15", "exploration",
		"in-memory changelog tables (valid: inserts, retractions of present rows only, re-inserts, duplicates; untimed, or timed with watermarks) x generated queries whose plans put filter, map, distinct, group by (hash), stream join, left/right/outer join, ORDER BY/LIMIT transform (top-level and nested) and two/three-node pipelines of them at the root, run through the real typecheck/optimise/materialise pipeline in-process; "+
			"oracle: (1) the root's output changelog never retracts a row that is not currently present, (2) its consolidation equals the reference evaluator applied to the consolidated inputs (multiset; sorted key sequence and count under ORDER BY/LIMIT). "+
			"non-trivial: some input has a retraction not adjacent to its insertion and the result is non-empty. distinct = canonical case JSON",
		"join inputs run on free goroutines here (any schedule must satisfy the property); C19 owns the schedule", "only total expressions are generated")
	ev.Check(t, r, "stream_vs_batch", ev.N(40000, 1000000), srig.Gen(3), c15Prop)
}
