#!/usr/bin/env python3
"""tools/mkdesigntables.py -- regenerates the generated tables of DESIGN.md (section 10.4 findings, 10.6 seeded changes)
between their <!-- gen:NAME:begin --> / <!-- gen:NAME:end --> markers from known_findings.json and seeded/*/meta.json."""
import json, os, re, glob
V = os.path.dirname(os.path.dirname(os.path.abspath(__file__)))
def esc(s, n):
    s = " ".join(str(s).split()).replace("|", "\\|")
    return s if len(s) <= n else s[:n].rstrip() + " …"
def title(notes):
    for line in notes.splitlines():
        line = line.strip().lstrip("#").strip()
        if line:
            return re.sub(r"^(C\d\d\s*(/|seeded|seed)?\s*)?(seeded\s+)?(change|seed)\s+[ABab]\s*[-:\u2014\u2013]+\s*", "", line, flags=re.I)
    return ""
def findings():
    d = json.load(open(os.path.join(V, "known_findings.json")))
    rows = ["| property | finding id | status | /repo commit | what failed |", "|---|---|---|---|---|"]
    for f in sorted(d["findings"], key=lambda f: (f["property"], f["id"])):
        rows.append("| %s | %s | %s | %s | %s |" % (f["property"], f["id"], f["status"], f.get("commit", "-"), esc(f["what"], 260)))
    return "\n".join(rows)
def seeded():
    rows = ["| change | what it breaks (and what it takes to show) | caught by | ran but stayed green | note |", "|---|---|---|---|---|"]
    for p in sorted(glob.glob(os.path.join(V, "seeded", "*", "meta.json"))):
        m = json.load(open(p))
        cr = m.get("checks_run", {})
        rows.append("| %s | %s | %s | %s | %s |" % (m["change"], esc(m.get("summary") or title(m.get("breaks", "")), 300), ", ".join(cr.get("caught_by", [])) or "-",
                                                   ", ".join(cr.get("ran_but_stayed_green", [])) or "-", esc(m.get("note", ""), 400)))
    return "\n".join(rows)
gens = {"findings": findings, "seeded": seeded}
p = os.path.join(V, "DESIGN.md")
s = open(p).read()
for name, fn in gens.items():
    b, e = "<!-- gen:%s:begin -->" % name, "<!-- gen:%s:end -->" % name
    if b not in s:
        print("marker missing:", name); continue
    s = s[:s.index(b) + len(b)] + "\n" + fn() + "\n" + s[s.index(e):]
open(p, "w").write(s)
print("ok")
