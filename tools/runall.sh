#!/bin/bash
# tools/runall.sh [tier]  -- runs every claimed check once, prints one summary line per check
tier=${1:-quick}
cd /verif
for id in $(python3 -c "import json; print(' '.join(c['property_id'] for c in json.load(open('MANIFEST.json'))['checks']))"); do
  t0=$(date +%s)
  out=$(./check $id --tier $tier 2>&1); rc=$?
  echo "$id exit=$rc $(( $(date +%s) - t0 ))s $(echo "$out" | grep -m1 '^EVIDENCE' | cut -d' ' -f3-) $(echo "$out" | grep -c '^KNOWN-FINDING') known $(echo "$out" | grep -m1 '^VIOLATION\|^INFRA\|^INCONCLUSIVE' | cut -c1-200)"
done
