export GOFLAGS=-mod=mod GOPROXY=off GOSUMDB=off GOTOOLCHAIN=local
