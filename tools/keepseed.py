#!/usr/bin/env python3
"""[SEED_ROUND=2] tools/keepseed.py <ID> <a|b> '<caught_by e.g. C01,C11>' '<not caught by (ran, stayed green)>' '<note>'
Copies a confirmed seeded change from /tmp/seed/out into /verif/seeded/<ID>-<x>/ with meta.json."""
import json, os, shutil, sys, glob
pid, x, caught, missed = sys.argv[1:5]
note = sys.argv[5] if len(sys.argv) > 5 else ""
rnd = os.environ.get("SEED_ROUND", "1")  # SEED_ROUND=2: second round of seeded changes (/tmp/seed/out2), kept as <ID>-c / <ID>-d
src = "/tmp/seed/out%s/%s/%s" % ("" if rnd == "1" else rnd, pid, x)
name = x if rnd == "1" else {"a": "c", "b": "d"}[x]
dst = "/verif/seeded/%s-%s" % (pid, name)
os.makedirs(dst, exist_ok=True)
for f in glob.glob(src + "/*"):
    if os.path.isfile(f) and os.path.getsize(f) < 400000 and not f.endswith("VERIFY.json"):
        shutil.copy(f, dst)
ver = json.load(open(src + "/VERIFY.json"))
assert all(ver[k] for k in ("applies", "builds", "suite_passes_with_patch", "demo_fails_with_patch", "demo_passes_on_head")), ver
notes = open(src + "/NOTES.md").read() if os.path.exists(src + "/NOTES.md") else ""
meta = {
    "property": pid,
    "change": "%s-%s" % (pid, name),
    "breaks": notes[:1800],
    "confirmed": {"by": "independent re-run in a scratch worktree of /repo (patch applies, builds with and without -tags verif, baseline suite passes with the patch, demonstration fails with the patch and passes on HEAD)", "details": ver},
    "checks_run": {"how": "tools/seedtest.sh <patch> <IDs>: scratch worktree of /repo + scratch copy of /verif, quick tier, VERIF_SEED=1", "caught_by": [c for c in caught.split(",") if c], "ran_but_stayed_green": [c for c in missed.split(",") if c]},
    "note": note,
}
json.dump(meta, open(dst + "/meta.json", "w"), indent=1)
print("kept", dst)
