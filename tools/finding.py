#!/usr/bin/env python3
"""tools/finding.py <status> <prop> <id> <commit|-> <sub> '<what>' '<case json>' [signature]  -- appends to known_findings.json and writes the witness replay"""
import json, sys, os
V = os.path.dirname(os.path.dirname(os.path.abspath(__file__)))
status, prop, fid, commit, sub, what, case = sys.argv[1:8]
sig = sys.argv[8] if len(sys.argv) > 8 else None
os.makedirs(os.path.join(V, "replays", prop), exist_ok=True)
rp = "replays/%s/%s-%s.json" % (prop, status, fid)
rf = {"property": prop, "sub": sub, "note": "%s %s: %s" % (status, commit, what), "case": json.loads(case)}
if status == "known":
    rf["finding"] = fid
json.dump(rf, open(os.path.join(V, rp), "w"), indent=1)
d = json.load(open(os.path.join(V, "known_findings.json")))
d["findings"] = [f for f in d["findings"] if not (f["property"] == prop and f["id"] == fid)]
e = {"status": status, "property": prop, "id": fid, "what": what, "witness": rp}
if commit != "-":
    e["commit"] = commit
if sig:
    e["signature"] = sig
d["findings"].append(e)
json.dump(d, open(os.path.join(V, "known_findings.json"), "w"), indent=1)
print("ok", rp)
