#!/bin/bash
# tools/seedtest.sh <patch.diff> <ID> [<ID>...]  -- applies a seeded change to /repo, checks that it builds and passes the
# baseline suite, runs the given checks (quick tier) and restores /repo. Prints one line per check.
set -u
patch=$1; shift
cd /repo || exit 2
if [ -n "$(git status --porcelain)" ]; then echo "SEEDTEST: /repo is not clean"; exit 2; fi
if ! git apply --check "$patch" 2>/dev/null; then echo "SEEDTEST: patch does not apply: $patch"; exit 2; fi
git apply "$patch"
trap 'cd /repo && git checkout -- . && git clean -fdq -- . >/dev/null 2>&1' EXIT
if ! go build ./... 2>/tmp/seedtest-build.log || ! go build -tags verif ./... 2>>/tmp/seedtest-build.log; then echo "SEEDTEST: does not build"; tail -5 /tmp/seedtest-build.log; exit 2; fi
if ! go test -vet=off -count=1 ./... >/tmp/seedtest-base.log 2>&1; then echo "SEEDTEST: baseline suite FAILS with this change"; grep -v "^ok\|no test files" /tmp/seedtest-base.log | tail -5; exit 2; fi
echo "SEEDTEST: builds, baseline suite passes"
cd /verif
for id in "$@"; do
  out=$(VERIF_SEED=${VERIF_SEED:-1} ./check "$id" ${SEED_SCALE:+--scale $SEED_SCALE} 2>&1)
  rc=$?
  first=$(echo "$out" | grep -m1 -A1 "^VIOLATION" | tail -1 | cut -c1-260)
  echo "SEEDTEST: check=$id exit=$rc $(echo "$out" | grep -m1 '^TIMING' | sed 's/.*total_s=\([0-9.]*\).*/t=\1s/') $first"
done
