#!/bin/bash
# tools/seedtest.sh <patch.diff> <ID> [<ID>...]
# Runs checks against a seeded change WITHOUT touching /repo: a scratch worktree of /repo (/tmp/seedrepo) gets the patch, and a
# scratch copy of /verif (/tmp/vcopy, harness go.mod pointed at the worktree) runs the checks. Prints one line per check.
set -u
patch=$(readlink -f "$1"); shift
# private scratch paths per invocation: several people may run this at the same time
SR=/tmp/seedrepo-$$; VC=/tmp/vcopy-$$
git -C /repo worktree add -q --detach $SR HEAD || exit 2
trap 'git -C /repo worktree remove --force $SR >/dev/null 2>&1; rm -rf $VC' EXIT
rsync -a --delete --exclude .git --exclude .build --exclude .out --exclude evidence /verif/ $VC/
mkdir -p $VC/evidence
sed -i "s#=> /repo#=> $SR#" $VC/harness/go.mod
cd $SR
if ! git apply --check "$patch" 2>/dev/null; then echo "SEEDTEST: patch does not apply: $patch"; exit 2; fi
git apply "$patch"
export GOFLAGS=-mod=mod GOPROXY=off GOSUMDB=off GOTOOLCHAIN=local
if ! go build ./... 2>/tmp/seedtest-build.log || ! go build -tags verif ./... 2>>/tmp/seedtest-build.log; then echo "SEEDTEST: does not build"; tail -5 /tmp/seedtest-build.log; exit 2; fi
if ! go test -vet=off -count=1 ./... >/tmp/seedtest-base.log 2>&1; then echo "SEEDTEST: baseline suite FAILS with this change"; grep -v "^ok\|no test files" /tmp/seedtest-base.log | tail -5; exit 2; fi
git checkout -q -- go.mod go.sum 2>/dev/null
echo "SEEDTEST: builds, baseline suite passes"
cd $VC
for id in "$@"; do
  out=$(VERIF_REPO=$SR VERIF_SEED=${VERIF_SEED:-1} ./check "$id" ${SEED_SCALE:+--scale $SEED_SCALE} 2>&1)
  rc=$?
  first=$(echo "$out" | grep -m1 -A1 "^VIOLATION" | tail -1 | cut -c1-300)
  echo "SEEDTEST: check=$id exit=$rc $(echo "$out" | grep -m1 '^TIMING' | sed 's/.*total_s=\([0-9.]*\).*/t=\1s/') $first"
done
