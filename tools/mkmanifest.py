#!/usr/bin/env python3
"""Regenerates /verif/MANIFEST.json from checks.json + tools/claims.json (the per-property texts)."""
import json, os, subprocess
V = os.path.dirname(os.path.dirname(os.path.abspath(__file__)))
checks = json.load(open(os.path.join(V, "checks.json")))
claims = json.load(open(os.path.join(V, "tools", "claims.json")))
import glob
# parts written by helpers are only claimed once reviewed and listed in tools/ready.json
ready = set(json.load(open(os.path.join(V, "tools", "ready.json"))))
for f in sorted(glob.glob(os.path.join(V, "tools", "parts", "*.check.json"))):
    for k, v in json.load(open(f)).items():
        if k in ready:
            checks[k] = v
for f in sorted(glob.glob(os.path.join(V, "tools", "parts", "*.claim.json"))):
    claims.update(json.load(open(f)))
props = [json.loads(l) for l in open(os.path.join(V, "properties.jsonl"))]
hooks_commits = []
try:
    out = subprocess.run(["git", "-C", "/repo", "log", "--format=%H %s"], stdout=subprocess.PIPE, text=True).stdout
    for l in out.splitlines():
        h, s = l.split(" ", 1)
        if s.startswith("verif hook:"):
            hooks_commits.append(h)
except Exception:
    pass
m = {
    "version": 1,
    "setup_cmd": "cd /verif && ./check build-all",
    "hooks": {
        "guard": "verif (Go build tag)",
        "enable": "go build -tags verif / go test -c -tags verif (done by ./check before every run, from /repo's working tree)",
        "baseline_off_cmd": "cd /repo && go test -json -vet=off -count=1 -timeout 25m ./...",
        "source_commits": hooks_commits,
        "add_only": True,
    },
    "engines": [
        {"name": "inproc", "path": "harness/inproc", "kind_free_text": "rapid properties + exhaustive enumerators on octosql packages in-process (E2)",
         "serves_properties": sorted(p for p, c in checks.items() if c["pkg"] == "inproc")},
        {"name": "cli", "path": "harness/cli", "kind_free_text": "rapid properties driving the real octosql binary built from /repo with -tags verif (E1/E3)",
         "serves_properties": sorted(p for p, c in checks.items() if c["pkg"] == "cli")},
    ],
    "checks": [],
    "not_applicable": [],
    "notes": "All checks: ./check <ID> --tier quick|thorough; exit 0 held / 1 VIOLATION / 2 infrastructure (never a verdict). known_findings.json is committed and never written at run time.",
}
for p in props:
    pid = p["id"]
    if pid in checks and pid in claims:
        c = claims[pid]
        m["checks"].append({
            "property_id": pid,
            "quick_cmd": "./check %s --tier quick" % pid,
            "thorough_cmd": "./check %s --tier thorough" % pid,
            "evidence_file": "/verif/evidence/%s.json" % pid,
            "replay_cmd_template": "./check %s --replay {path}" % pid,
            "engine": checks[pid]["pkg"],
            "level_claimed": {"category": c.get("category", "exploration"), "text": c["text"], "design_ref": "DESIGN.md section 6 " + pid},
            "level_note": c["note"],
            "technique": c["technique"],
        })
    else:
        m["not_applicable"].append({"property_id": pid, "reason": claims.get(pid, {}).get("na", "check not built yet in this round (planned in DESIGN.md section 6); not claimed until it runs clean")})
json.dump(m, open(os.path.join(V, "MANIFEST.json"), "w"), indent=1)
print("claimed:", len(m["checks"]), "not claimed:", len(m["not_applicable"]))
